#!/bin/sh
# MANIFEST.setup_cmd: build the framework from files on disk only (offline). Everything is python3 stdlib +
# the pre-installed verus / cargo-kani; harness crates are compiled by the checks themselves.
set -e
cd "$(dirname "$0")"
mkdir -p build evidence replays target
command -v verus >/dev/null
command -v cargo-kani >/dev/null || cargo kani --version >/dev/null
python3 -c "import sys; sys.path.insert(0,'weave'); import rtok, weave"
echo setup ok
