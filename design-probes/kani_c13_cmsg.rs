#![allow(unused)]
use compio_buf::*;
use compio_io::ancillary::*;
use std::mem::MaybeUninit;

#[derive(Clone, Copy, PartialEq, Eq)]
struct W4(u32);
impl AncillaryData for W4 {
    const SIZE: usize = 4;
    fn encode(&self, buffer: &mut [MaybeUninit<u8>]) -> Result<(), CodecError> {
        if buffer.len() < 4 { return Err(CodecError::BufferTooSmall); }
        let b = self.0.to_ne_bytes();
        let mut i = 0; while i < 4 { buffer[i] = MaybeUninit::new(b[i]); i += 1; }
        Ok(())
    }
    fn decode(buffer: &[u8]) -> Result<Self, CodecError> {
        if buffer.len() < 4 { return Err(CodecError::BufferTooSmall); }
        Ok(W4(u32::from_ne_bytes([buffer[0], buffer[1], buffer[2], buffer[3]])))
    }
}

#[cfg(kani)]
mod proofs {
    use super::*;
    #[kani::proof]
    #[kani::unwind(50)]
    fn cmsg_roundtrip_two() {
        const N: usize = 48; // 2 * CMSG_SPACE(4) on x86-64 (= 24 each)
        let mut buf = AncillaryBuf::<N>::new();
        let (l1, t1, v1): (i32, i32, u32) = (kani::any(), kani::any(), kani::any());
        let (l2, t2, v2): (i32, i32, u32) = (kani::any(), kani::any(), kani::any());
        {
            let mut b = buf.builder();
            assert!(b.push(l1, t1, &W4(v1)).is_ok());
            assert!(b.push(l2, t2, &W4(v2)).is_ok());
            assert!(b.push(l2, t2, &W4(v2)).is_err());
        }
        assert!(buf.len() == 48);
        let mut it = unsafe { AncillaryIter::new(&buf) };
        let a = it.next().unwrap();
        assert!(a.level() == l1 && a.ty() == t1);
        match a.data::<W4>() { Ok(w) => assert!(w.0 == v1), Err(_) => assert!(false) }
        let b = it.next().unwrap();
        assert!(b.level() == l2 && b.ty() == t2);
        match b.data::<W4>() { Ok(w) => assert!(w.0 == v2), Err(_) => assert!(false) }
        assert!(it.next().is_none());
    }
}
