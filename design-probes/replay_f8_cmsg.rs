use compio_io::ancillary::*;
use std::mem::MaybeUninit;
struct W4(u32);
impl AncillaryData for W4 {
    const SIZE: usize = 4;
    fn encode(&self, buffer: &mut [MaybeUninit<u8>]) -> Result<(), CodecError> {
        let b = self.0.to_ne_bytes();
        for i in 0..4 { buffer[i] = MaybeUninit::new(b[i]); }
        Ok(())
    }
    fn decode(buffer: &[u8]) -> Result<Self, CodecError> {
        println!("decode got a slice of {} bytes for a 4-byte payload", buffer.len());
        Ok(W4(u32::from_ne_bytes([buffer[0], buffer[1], buffer[2], buffer[3]])))
    }
}
fn main() {
    let mut buf = AncillaryBuf::<48>::new();
    {
        let mut b = buf.builder();
        b.push(1, 2, &W4(7)).unwrap();
        b.push(3, 4, &W4(9)).unwrap();
    }
    let it = unsafe { AncillaryIter::new(&buf) };
    for m in it { let w: W4 = m.data().unwrap(); println!("{} {} {}", m.level(), m.ty(), w.0); }
}
