#![allow(unused)]
use compio_buf::*;
use compio_io::framed::frame::*;

#[cfg(kani)]
mod proofs {
    use super::*;
    fn ok<T, E>(r: Result<T, E>) -> T { match r { Ok(v) => v, Err(_) => { assert!(false, "unexpected Err"); loop {} } } }

    #[kani::proof]
    #[kani::unwind(14)]
    fn lenfield_extract_hostile() {
        let lfl: usize = kani::any(); kani::assume(lfl <= 8);
        let be: bool = kani::any();
        let mut f = LengthDelimited::new().set_length_field_len(lfl).set_length_field_is_big_endian(be);
        let bytes: [u8; 12] = kani::any();
        let n: usize = kani::any(); kani::assume(n <= 12);
        let mut v = Vec::with_capacity(12);
        let mut i = 0; while i < n { v.push(bytes[i]); i += 1; }
        let s = v.slice(..);
        match Framer::<Vec<u8>>::extract(&mut f, &s) {
            Ok(Some(fr)) => { assert!(fr.len() <= n); }
            Ok(None) => {}
            Err(_) => {}
        }
    }
}
