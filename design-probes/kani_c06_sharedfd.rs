#![allow(unused)]
use compio_driver::SharedFd;
use std::{future::Future, pin::Pin, sync::Arc, sync::atomic::{AtomicUsize, Ordering}, task::{Context, Poll, Wake, Waker}};

static DROPS: AtomicUsize = AtomicUsize::new(0);
struct Tok;
impl Drop for Tok { fn drop(&mut self) { DROPS.fetch_add(1, Ordering::Relaxed); } }

struct CountWake(AtomicUsize);
impl Wake for CountWake { fn wake(self: Arc<Self>) { self.0.fetch_add(1, Ordering::Relaxed); } fn wake_by_ref(self: &Arc<Self>) { self.0.fetch_add(1, Ordering::Relaxed); } }

#[cfg(kani)]
mod proofs {
    use super::*;
    #[kani::proof]
    #[kani::unwind(5)]
    fn shared_fd_take_protocol() {
        let fd = unsafe { SharedFd::new_unchecked(Tok) };
        let c1 = fd.clone();
        let c2 = fd.clone();
        let cw = Arc::new(CountWake(AtomicUsize::new(0)));
        let waker = Waker::from(cw.clone());
        let mut cx = Context::from_waker(&waker);
        let mut fut = Box::pin(fd.take());
        let mut c1 = Some(c1); let mut c2 = Some(c2);
        // first poll while two other holders exist
        assert!(fut.as_mut().poll(&mut cx).is_pending());
        assert!(DROPS.load(Ordering::Relaxed) == 0);
        if kani::any() { c1.take(); } else { c2.take(); }
        // one other holder remains: still pending, token alive
        let woke_before = cw.0.load(Ordering::Relaxed);
        if kani::any() { assert!(fut.as_mut().poll(&mut cx).is_pending()); }
        assert!(DROPS.load(Ordering::Relaxed) == 0);
        c1.take(); c2.take();
        // last other holder gone: waker must have fired, next poll is Ready(Some)
        assert!(cw.0.load(Ordering::Relaxed) > woke_before || woke_before > 0);
        match fut.as_mut().poll(&mut cx) {
            Poll::Ready(Some(t)) => { assert!(DROPS.load(Ordering::Relaxed) == 0); drop(t); assert!(DROPS.load(Ordering::Relaxed) == 1); }
            _ => panic!("close did not complete"),
        }
    }
}
