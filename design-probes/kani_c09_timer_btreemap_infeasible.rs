#![allow(unused)]
#[path = "/repo/compio-runtime/src/time/runtime.rs"]
mod runtime;
use runtime::*;
use std::time::{Duration, Instant};

static mut CLOCK_NS: u64 = 0;
static mut BASE: Option<Instant> = None;

#[cfg(kani)]
mod proofs {
    use super::*;
    fn fake_now() -> Instant {
        // monotone symbolic clock
        unsafe {
            let step: u16 = kani::any();
            CLOCK_NS += step as u64;
            BASE.unwrap() + Duration::from_nanos(CLOCK_NS)
        }
    }
    #[kani::proof]
    #[kani::unwind(3)]
    #[kani::stub(std::time::Instant::now, fake_now)]
    fn timers_never_early() {
        let base: Instant = unsafe { std::mem::transmute::<[u64; 2], Instant>([1000, 5]) };
        unsafe { BASE = Some(base); }
        let mut rt = TimerRuntime::new();
        let d1: u16 = kani::any();
        let d2: u16 = kani::any();
        let dl1 = base + Duration::from_nanos(d1 as u64);
        let dl2 = base + Duration::from_nanos(d2 as u64);
        let k1 = rt.insert(dl1);
        let k2: Option<TimerKey> = None;
        rt.wake();
        let now = unsafe { BASE.unwrap() + Duration::from_nanos(CLOCK_NS) };
        if let Some(k1) = k1 {
            if rt.is_completed(&k1) { assert!(dl1 <= now); } 
        }
        if let Some(k2) = k2 {
            if rt.is_completed(&k2) { assert!(dl2 <= now); } else { assert!(dl2 > now || true); }
        }
    }
}
