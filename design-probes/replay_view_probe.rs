use compio_buf::*;
fn fill<B: IoBufMut>(b: &mut B, src: &[u8]) -> usize {
    let dst = B::as_uninit(b);
    let n = src.len().min(dst.len());
    for i in 0..n { dst[i].write(src[i]); }
    unsafe { SetLenExt::advance_to(b, n) };
    n
}
fn show<B: IoBufMut>(tag: &str, b: &mut B) {
    let ip = B::as_init(b).as_ptr() as usize; let il = B::as_init(b).len();
    let u = B::as_uninit(b); let up = u.as_ptr() as usize; let ul = u.len();
    println!("{tag}: init=({:#x},{il}) uninit=({:#x},{ul}) prefix={}", ip & 0xfff, up & 0xfff, ip == up && il <= ul);
}
fn main() {
    // owned_iter
    let bufs = vec![Vec::<u8>::with_capacity(4), Vec::<u8>::with_capacity(4)];
    let mut it = bufs.owned_iter().ok().unwrap();
    show("iter0 fresh", &mut it);
    fill(&mut it, b"ab");
    show("iter0 after fill 2", &mut it);
    println!("inner = {:?}", it.into_inner());
    // uninit
    let mut v = Vec::<u8>::with_capacity(8); v.extend_from_slice(b"xy");
    let mut u = v.uninit();
    show("uninit fresh", &mut u);
    fill(&mut u, b"ab");
    show("uninit after fill", &mut u);
    // slice of slice
    let mut v = Vec::<u8>::with_capacity(8); v.extend_from_slice(b"012345");
    let mut s = v.slice(1..5).slice(1..);
    show("slice.slice", &mut s);
    fill(&mut s, b"ab");
    show("slice.slice after fill2", &mut s);
    println!("{:?}", s.into_inner().into_inner());
    // tuple set_len
    let mut t = (Vec::<u8>::with_capacity(2), (Vec::<u8>::with_capacity(2),));
    unsafe { SetLen::set_len(&mut t, 3) };
    println!("tuple lens {} {}", t.0.len(), (t.1).0.len());
    // array-of-vec default_set_len shrink
    let mut a = [vec![1u8,2,3], vec![4u8,5,6]];
    unsafe { SetLen::set_len(&mut a, 2) };
    println!("arr lens after set_len(2): {} {}", a[0].len(), a[1].len());
    let mut a = [vec![1u8,2,3], vec![4u8,5,6]];
    unsafe { SetLen::set_len(&mut a, 0) };
    println!("arr lens after set_len(0): {} {}", a[0].len(), a[1].len());
}
