use vstd::prelude::*;
use std::mem::MaybeUninit;
verus! {

// ===== overlay: buffer contract with ghost memory + shape =====
pub enum Shape { Root(int), Slice(Box<Shape>, int, Option<int>) }

pub trait IoBuf: Sized {
    spec fn wf(&self) -> bool;
    spec fn shape(&self) -> Shape;
    spec fn mem(&self) -> Seq<u8>;        // ghost content of the root allocation
    spec fn i_off(&self) -> nat;
    spec fn i_len(&self) -> nat;
    spec fn w_cap(&self) -> nat;          // writable length, starting at i_off
    proof fn lemma_buf(&self)
        requires self.wf()
        ensures self.i_len() <= self.w_cap(), self.i_off() + self.w_cap() <= self.mem().len(), self.i_off() + self.w_cap() <= usize::MAX;
    fn buf_len(&self) -> (r: usize) requires self.wf() ensures r == self.i_len();
    fn buf_capacity(&mut self) -> (r: usize) requires old(self).wf() ensures r == old(self).w_cap(), *final(self) == *old(self);
}

/// two-state relation: `b` is `a` after `data` was written at the start of a's writable region and recorded
pub open spec fn filled<B: IoBuf>(a: B, b: B, data: Seq<u8>) -> bool {
    &&& b.wf() && b.shape() == a.shape() && b.i_off() == a.i_off() && b.w_cap() == a.w_cap()
    &&& b.mem().len() == a.mem().len()
    &&& forall|i: int| 0 <= i < a.mem().len() ==> b.mem()[i] == (if a.i_off() <= i < a.i_off() + data.len() { data[i - a.i_off()] } else { a.mem()[i] })
    &&& data.len() <= b.i_len() && b.i_len() <= (if a.i_len() >= data.len() { a.i_len() } else { data.len() })
}
pub open spec fn untouched<B: IoBuf>(a: B, b: B) -> bool {
    b.wf() && b.shape() == a.shape() && b.i_off() == a.i_off() && b.w_cap() == a.w_cap() && b.mem() == a.mem() && b.i_len() == a.i_len()
}

// ===== real code: Slice (fields widened) =====
pub struct Slice<T> { pub buffer: T, pub begin: usize, pub end: Option<usize> }

impl<T> Slice<T> {
    fn into_inner(self) -> (r: T) ensures r == self.buffer { self.buffer }
}

impl<T: IoBuf> IoBuf for Slice<T> {
    open spec fn wf(&self) -> bool { self.buffer.wf() && self.begin <= self.buffer.i_len() && self.begin <= self.buffer.w_cap() && self.end is None }
    open spec fn shape(&self) -> Shape { Shape::Slice(Box::new(self.buffer.shape()), self.begin as int, None) }
    open spec fn mem(&self) -> Seq<u8> { self.buffer.mem() }
    open spec fn i_off(&self) -> nat { (self.buffer.i_off() + self.begin) as nat }
    open spec fn i_len(&self) -> nat { (self.buffer.i_len() - self.begin) as nat }
    open spec fn w_cap(&self) -> nat { (self.buffer.w_cap() - self.begin) as nat }
    proof fn lemma_buf(&self) { self.buffer.lemma_buf(); }
    #[verifier::external_body] fn buf_len(&self) -> usize { unimplemented!() }           // proved in c10-view
    #[verifier::external_body] fn buf_capacity(&mut self) -> usize { unimplemented!() }  // proved in c10-view
}

// hand-off contract of IoBufExt::slice for RangeFrom (discharged by Kani on the real function)
#[verifier::external_body]
fn slice_from<T: IoBuf>(buf: T, begin: usize) -> (r: Slice<T>)
    requires buf.wf(), begin <= buf.i_len()
    ensures r.buffer == buf, r.begin == begin, r.end is None
{ unimplemented!() }

pub struct BufResult<T, B>(pub Result<T, ErrKind>, pub B);
pub enum ErrKind { Interrupted, UnexpectedEof, Other }
impl<T, B> BufResult<T, Slice<B>> {
    fn into_inner(self) -> (r: BufResult<T, B>) ensures r.0 == self.0, r.1 == self.1.buffer { BufResult(self.0, self.1.into_inner()) }
}

// ===== overlay: abstract reader =====
pub trait AsyncRead {
    spec fn src(&self) -> Seq<u8>;
    fn read<B: IoBuf>(&mut self, buf: B) -> (r: BufResult<usize, B>)
        requires buf.wf()
        ensures match r.0 {
            Ok(n) => n <= buf.w_cap() && n <= old(self).src().len() && final(self).src() == old(self).src().skip(n as int)
                     && filled(buf, r.1, old(self).src().take(n as int))
                     && (n == 0 ==> buf.w_cap() == 0 || old(self).src().len() == 0),
            Err(_) => final(self).src() == old(self).src() && untouched(buf, r.1),
        };
}

// ===== real code (R5 projection, R6 expansion of loop_read_exact) =====
#[verifier::exec_allows_no_decreases_clause]
fn read_exact<R: AsyncRead, T: IoBuf>(this: &mut R, mut buf: T) -> (r: BufResult<(), T>)
    requires buf.wf(), buf.i_len() == 0
    ensures match r.0 {
        Ok(()) => {
            let cap = buf.w_cap() as int;
            &&& old(this).src().len() >= cap
            &&& final(this).src() == old(this).src().skip(cap)
            &&& r.1.wf() && r.1.shape() == buf.shape() && r.1.i_len() == cap
            &&& forall|i: int| 0 <= i < buf.mem().len() ==> r.1.mem()[i] == (if buf.i_off() <= i < buf.i_off() + cap { old(this).src()[i - buf.i_off()] } else { buf.mem()[i] })
        },
        Err(_) => true,
    }
{
    let ghost buf0 = buf;
    let mut read = 0;
    let len = buf.buf_capacity();

    while read < len
        invariant
            read <= len, len == buf0.w_cap(),
            buf.wf(), buf.shape() == buf0.shape(), buf.i_off() == buf0.i_off(), buf.w_cap() == buf0.w_cap(), buf.mem().len() == buf0.mem().len(),
            buf.i_len() == read,
            read <= old(this).src().len(),
            this.src() == old(this).src().skip(read as int),
            forall|i: int| 0 <= i < buf0.mem().len() ==> buf.mem()[i] == (if buf0.i_off() <= i < buf0.i_off() + read { old(this).src()[i - buf0.i_off()] } else { buf0.mem()[i] }),
    {
        proof { buf.lemma_buf(); }
        match this.read(slice_from(buf, read)).into_inner() {
            BufResult(Ok(0), buf__m) => {
                return BufResult(
                    Err(ErrKind::UnexpectedEof),
                    buf__m,
                );
            }
            BufResult(Ok(n), buf__m) => {
                read += n;
                buf = buf__m;
            }
            BufResult(Err(ErrKind::Interrupted), buf__m) => {
                buf = buf__m;
            }
            BufResult(Err(e), buf__m) => return BufResult(Err(e), buf__m),
        }
    }
    return BufResult(Ok(()), buf)
}

} // verus!
fn main() {}
