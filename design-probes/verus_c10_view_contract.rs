use vstd::prelude::*;
use std::mem::MaybeUninit;
use std::ops::{Deref, DerefMut};
verus! {

// ---------- contract overlay: the "one contract" of C10 ----------
// Positions are offsets into the root allocation.
pub trait IoBuf {
    spec fn wf(&self) -> bool;
    spec fn root_cap(&self) -> nat;       // size of the underlying allocation
    spec fn i_off(&self) -> nat;          // offset of as_init() in the root allocation
    spec fn i_len(&self) -> nat;          // length of as_init()
    proof fn lemma_ibuf(&self)
        requires self.wf()
        ensures self.i_off() + self.i_len() <= self.root_cap();
    fn as_init(&self) -> (r: &[u8])
        requires self.wf()
        ensures r@.len() == self.i_len();
}

pub trait SetLen {
    spec fn s_wf(&self) -> bool;
    spec fn s_len(&self) -> nat;
    spec fn s_cap(&self) -> nat;
    spec fn s_woff(&self) -> nat;
    proof fn lemma_setlen(&self)
        requires self.s_wf()
        ensures self.s_woff() + self.s_cap() <= usize::MAX, self.s_len() <= self.s_cap();
    unsafe fn set_len(&mut self, len: usize)
        requires old(self).s_wf(), len <= old(self).s_cap()
        ensures final(self).s_wf(), final(self).s_cap() == old(self).s_cap(), final(self).s_woff() == old(self).s_woff(),
            len <= final(self).s_len(), final(self).s_len() <= if old(self).s_len() >= len { old(self).s_len() } else { len as nat };
}

pub trait IoBufMut: IoBuf + SetLen {
    spec fn w_off(&self) -> nat;
    spec fn w_cap(&self) -> nat;
    proof fn lemma_iobufmut(&self)
        requires self.wf()
        ensures self.s_wf(), self.w_off() == self.i_off(), self.i_len() <= self.w_cap(), self.w_off() + self.w_cap() <= self.root_cap(),
            self.s_len() == self.i_len(), self.s_cap() == self.w_cap(), self.s_woff() == self.w_off();
    fn as_uninit(&mut self) -> (r: &mut [MaybeUninit<u8>])
        requires old(self).wf()
        ensures r@.len() == old(self).w_cap(), final(self).wf(),
           final(self).w_off() == old(self).w_off(), final(self).w_cap() == old(self).w_cap(), final(self).i_len() == old(self).i_len(), final(self).root_cap() == old(self).root_cap();
}

pub struct Slice<T> {
    pub buffer: T,
    pub begin: usize,
    pub end: Option<usize>,
}

impl<T: IoBuf> Slice<T> {
    fn end_or_len(&self) -> (r: usize)
        requires self.buffer.wf()
        ensures r == (if self.end is Some && self.end->0 <= self.buffer.i_len() { self.end->0 as nat } else { self.buffer.i_len() })
    {
        let len = self.buffer.buf_len();
        self.end.unwrap_or(len).min(len)
    }
}

pub trait IoBufExt: IoBuf {
    fn buf_len(&self) -> (r: usize)
        requires self.wf()
        ensures r == self.i_len()
    {
        self.as_init().len()
    }
}
impl<B: IoBuf + ?Sized> IoBufExt for B {}


impl<T> Slice<T> {
    pub(crate) unsafe fn new(buffer: T, begin: usize, end: Option<usize>) -> (r: Self)
        ensures r.buffer == buffer, r.begin == begin, r.end == end
    {
        Self { buffer, begin, end }
    }
    pub fn begin(&self) -> (r: usize) ensures r == self.begin {
        self.begin
    }
}

pub open spec fn min_nat(a: nat, b: nat) -> nat { if a <= b { a } else { b } }

impl<T: IoBuf> Slice<T> {
    pub open spec fn eol(&self) -> nat {
        if self.end is Some && self.end->0 <= self.buffer.i_len() { self.end->0 as nat } else { self.buffer.i_len() }
    }
    fn initialized_range(&self) -> (r: std::ops::Range<usize>)
        requires self.buffer.wf()
        ensures r.start == self.begin, r.end == self.eol()
    {
        let end = self.end_or_len();
        self.begin..end
    }
}

impl<T: IoBufMut> Slice<T> {
    pub open spec fn eoc(&self) -> nat {
        if self.end is Some && self.end->0 <= self.buffer.w_cap() { self.end->0 as nat } else { self.buffer.w_cap() }
    }
    fn end_or_cap(&mut self) -> (r: usize)
        requires old(self).buffer.wf()
        ensures r == old(self).eoc(), final(self).buffer.wf(), final(self).begin == old(self).begin, final(self).end == old(self).end,
          final(self).buffer.w_off() == old(self).buffer.w_off(), final(self).buffer.w_cap() == old(self).buffer.w_cap(), final(self).buffer.i_len() == old(self).buffer.i_len(), final(self).buffer.root_cap() == old(self).buffer.root_cap()
    {
        let cap = self.buffer.buf_capacity();
        self.end.unwrap_or(cap).min(cap)
    }
    fn range(&mut self) -> (r: std::ops::Range<usize>)
        requires old(self).buffer.wf()
        ensures r.start == old(self).begin, r.end == old(self).eoc(), final(self).buffer.wf(), final(self).begin == old(self).begin, final(self).end == old(self).end,
          final(self).buffer.w_off() == old(self).buffer.w_off(), final(self).buffer.w_cap() == old(self).buffer.w_cap(), final(self).buffer.i_len() == old(self).buffer.i_len(), final(self).buffer.root_cap() == old(self).buffer.root_cap()
    {
        let end = self.end_or_cap();
        self.begin..end
    }
}

pub trait IoBufMutExt: IoBufMut {
    fn buf_capacity(&mut self) -> (r: usize)
        requires old(self).wf()
        ensures r == old(self).w_cap(), final(self).wf(),
           final(self).w_off() == old(self).w_off(), final(self).w_cap() == old(self).w_cap(), final(self).i_len() == old(self).i_len(), final(self).root_cap() == old(self).root_cap()
    {
        self.as_uninit().len()
    }
}
impl<B: IoBufMut + ?Sized> IoBufMutExt for B {}

impl<T: IoBuf> Slice<T> {
    fn deref(&self) -> (r: &[u8])
        requires IoBuf::wf(self)
        ensures r@.len() == IoBuf::i_len(self)
    {
        let range = self.initialized_range();
        let bytes = self.buffer.as_init();
        &bytes[range]
    }
}

impl<T: IoBuf> IoBuf for Slice<T> {
    open spec fn wf(&self) -> bool {
        self.buffer.wf() && self.begin <= self.buffer.i_len() && (self.end is Some ==> self.begin <= self.end->0)
    }
    open spec fn root_cap(&self) -> nat { self.buffer.root_cap() }
    open spec fn i_off(&self) -> nat { (self.buffer.i_off() + self.begin) as nat }
    open spec fn i_len(&self) -> nat { (self.eol() - self.begin) as nat }
    proof fn lemma_ibuf(&self) { self.buffer.lemma_ibuf(); }
    fn as_init(&self) -> &[u8] {
        self.deref()
    }
}


impl<T: SetLen> SetLen for Slice<T> {
    open spec fn s_wf(&self) -> bool {
        self.buffer.s_wf() && self.begin <= self.buffer.s_len() && (self.end is Some ==> self.begin <= self.end->0)
    }
    open spec fn s_len(&self) -> nat {
        ((if self.end is Some && self.end->0 <= self.buffer.s_len() { self.end->0 as nat } else { self.buffer.s_len() }) - self.begin) as nat
    }
    open spec fn s_cap(&self) -> nat {
        ((if self.end is Some && self.end->0 <= self.buffer.s_cap() { self.end->0 as nat } else { self.buffer.s_cap() }) - self.begin) as nat
    }
    open spec fn s_woff(&self) -> nat { (self.buffer.s_woff() + self.begin) as nat }
    proof fn lemma_setlen(&self) { self.buffer.lemma_setlen(); }
    unsafe fn set_len(&mut self, len: usize) {
        proof { old(self).buffer.lemma_setlen(); }
        unsafe { self.buffer.set_len(self.begin + len) }
    }
}

impl<T: IoBufMut> IoBufMut for Slice<T> {
    open spec fn w_off(&self) -> nat { (self.buffer.w_off() + self.begin) as nat }
    open spec fn w_cap(&self) -> nat { (self.eoc() - self.begin) as nat }
    proof fn lemma_iobufmut(&self) { self.buffer.lemma_iobufmut(); self.buffer.lemma_ibuf(); }
    fn as_uninit(&mut self) -> &mut [MaybeUninit<u8>] {
        proof { old(self).buffer.lemma_iobufmut(); }
        let range = self.range();
        let bytes = self.buffer.as_uninit();
        &mut bytes[range]
    }
}


pub struct Uninit<T>(pub Slice<T>);

impl<T: IoBuf> IoBuf for Uninit<T> {
    open spec fn wf(&self) -> bool { self.0.wf() }
    open spec fn root_cap(&self) -> nat { self.0.root_cap() }
    open spec fn i_off(&self) -> nat { self.0.i_off() }
    open spec fn i_len(&self) -> nat { self.0.i_len() }
    proof fn lemma_ibuf(&self) { self.0.lemma_ibuf(); }
    fn as_init(&self) -> &[u8] {
        self.0.as_init() // this is always &[] but we can't return &[] since the pointer will be different
    }
}

impl<T: SetLen + IoBuf> SetLen for Uninit<T> {
    open spec fn s_wf(&self) -> bool { self.0.s_wf() }
    open spec fn s_len(&self) -> nat { self.0.s_len() }
    open spec fn s_cap(&self) -> nat { self.0.s_cap() }
    open spec fn s_woff(&self) -> nat { self.0.s_woff() }
    proof fn lemma_setlen(&self) { self.0.lemma_setlen(); }
    unsafe fn set_len(&mut self, len: usize) {
        unsafe {
            self.0.set_len(len);
        }
    }
}

impl<T: IoBufMut> IoBufMut for Uninit<T> {
    open spec fn w_off(&self) -> nat { self.0.w_off() }
    open spec fn w_cap(&self) -> nat { self.0.w_cap() }
    proof fn lemma_iobufmut(&self) { self.0.lemma_iobufmut(); }
    fn as_uninit(&mut self) -> &mut [MaybeUninit<u8>] {
        proof { old(self).0.lemma_iobufmut(); }
        let len = (*self).buf_len();
        &mut self.0.as_uninit()[len..]
    }
}

} // verus!
fn main() {}
