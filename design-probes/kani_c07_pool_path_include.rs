#![allow(unused)]
#[path = "/repo/compio-driver/src/buffer_pool.rs"]
pub mod buffer_pool;
pub mod sys {
    pub struct Driver;
    #[path = "/repo/compio-driver/src/sys/buffer_pool/mod.rs"]
    mod buffer_pool;
    pub use buffer_pool::BufControl;
}
pub use sys::Driver;
pub use buffer_pool::*;
use compio_buf::*;

#[cfg(kani)]
mod proofs {
    use super::*;
    use crate::buffer_pool::{BufferAlloc, BufferPoolRoot};
    fn ok<T, E>(r: Result<T, E>) -> T { match r { Ok(v) => v, Err(e) => { std::mem::forget(e); kani::assume(false); loop {} } } }
    fn mk() -> BufferPoolRoot { let mut d = Driver; ok(BufferPoolRoot::new(&mut d, BufferAlloc::new::<BoxAllocator>(), 2, 2, 0)) }
    #[kani::proof] #[kani::unwind(4)]
    fn va_pop_forget() {
        let root = mk(); let pool = root.get_pool();
        let a = ok(pool.pop());
        std::mem::forget(a); std::mem::forget(pool); std::mem::forget(root);
    }
    #[kani::proof] #[kani::unwind(4)]
    fn vb_pop_drop() {
        let root = mk(); let pool = root.get_pool();
        let a = ok(pool.pop());
        drop(a);
        std::mem::forget(pool); std::mem::forget(root);
    }
    #[kani::proof] #[kani::unwind(4)]
    fn vc_pop_err_forget() {
        let root = mk(); let pool = root.get_pool();
        let a = ok(pool.pop()); let b = ok(pool.pop());
        match pool.pop() { Ok(x) => { std::mem::forget(x); assert!(false); } Err(e) => { std::mem::forget(e); } }
        std::mem::forget(a); std::mem::forget(b); std::mem::forget(pool); std::mem::forget(root);
    }
    #[kani::proof] #[kani::unwind(4)]
    fn vd_drop_pool_handle() {
        let root = mk(); let pool = root.get_pool();
        drop(pool);
        std::mem::forget(root);
    }
}
