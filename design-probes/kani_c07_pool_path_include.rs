#![allow(unused)]
#[path = "/repo/compio-driver/src/buffer_pool.rs"]
pub mod buffer_pool;
pub mod sys {
    pub struct Driver;
    #[path = "/repo/compio-driver/src/sys/buffer_pool/mod.rs"]
    mod buffer_pool;
    pub use buffer_pool::BufControl;
}
pub use sys::Driver;
pub use buffer_pool::*;
use compio_buf::*;
use std::{mem::MaybeUninit, ptr::NonNull};

static mut LIVE: isize = 0;
pub struct CountAlloc;
impl BufferAllocator for CountAlloc {
    fn allocate(len: u32) -> NonNull<MaybeUninit<u8>> { unsafe { LIVE += 1; } BoxAllocator::allocate(len) }
    unsafe fn deallocate(ptr: NonNull<MaybeUninit<u8>>, len: u32) { unsafe { LIVE -= 1; BoxAllocator::deallocate(ptr, len) } }
}

#[cfg(kani)]
mod proofs {
    use super::*;
    use crate::buffer_pool::{BufferAlloc, BufferPoolRoot};
    fn ok<T, E>(r: Result<T, E>) -> T { match r { Ok(v) => v, Err(_) => { kani::assume(false); loop {} } } }
    #[kani::proof]
    #[kani::unwind(4)]
    fn v4_pool_alive() {
        let mut d = Driver;
        let root = ok(BufferPoolRoot::new(&mut d, BufferAlloc::new::<BoxAllocator>(), 2, 2, 0));
        let pool = root.get_pool();
        let a = ok(pool.pop());
        let b = ok(pool.pop());
        assert!(a.as_init().as_ptr() != b.as_init().as_ptr());
        assert!(pool.pop().is_err());
        assert!(ok(pool.take(0)).is_none());
        assert!(ok(pool.take(1)).is_none());
        if kani::any() { drop(a); assert!(pool.pop().is_ok_and(|x| { std::mem::forget(x); true })); std::mem::forget(b); }
        else { drop(b); drop(a); let x = ok(pool.pop()); let y = ok(pool.pop()); assert!(pool.pop().is_err()); std::mem::forget(x); std::mem::forget(y); }
        std::mem::forget(root);
    }
}
