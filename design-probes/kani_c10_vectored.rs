#![allow(unused)]
use compio_buf::*;

fn mk(cap: usize, len: usize, tag: u8) -> Vec<u8> {
    let mut v = Vec::with_capacity(cap);
    let mut i = 0; while i < len { v.push(tag + i as u8); i += 1; }
    v
}

#[cfg(kani)]
mod proofs {
    use super::*;
    // default_set_len / slice_mut / VectoredSlice on [Vec<u8>; 2], concrete capacities, symbolic lens and begin
    #[kani::proof]
    #[kani::unwind(7)]
    fn vectored_slice_mut_set_len() {
        const C0: usize = 2; const C1: usize = 3;
        let l0: usize = kani::any(); kani::assume(l0 <= C0);
        let l1: usize = kani::any(); kani::assume(l1 <= C1);
        let mut bufs = [mk(C0, l0, 10), mk(C1, l1, 20)];
        kani::assume(bufs[0].capacity() == C0 && bufs[1].capacity() == C1);
        assert!(bufs.total_capacity() == C0 + C1);
        let begin: usize = kani::any(); kani::assume(begin <= C0 + C1);
        let mut vs = bufs.slice_mut(begin);
        // writable region of the view == concatenation shifted by begin
        let mut total = 0usize;
        for s in vs.iter_uninit_slice() { total += s.len(); }
        assert!(total == C0 + C1 - begin);
        // dense fill of n bytes and record
        let n: usize = kani::any(); kani::assume(n <= total);
        let mut k = 0usize;
        for s in vs.iter_uninit_slice() { let mut j = 0; while j < s.len() && k < n { s[j].write(0xEE); j += 1; k += 1; } }
        unsafe { SetLen::set_len(&mut vs, n) };
        let bufs = vs.into_inner();
        assert!(bufs[0].len() <= C0 && bufs[1].len() <= C1);
        // the n written bytes are visible at concatenation positions [begin, begin+n)
        let end = begin + n;
        let mut p = begin;
        while p < end {
            let b = if p < C0 { assert!(bufs[0].len() > p); bufs[0][p] } else { assert!(bufs[1].len() > p - C0); bufs[1][p - C0] };
            assert!(b == 0xEE);
            p += 1;
        }
    }
}
