use vstd::prelude::*;
verus! {

pub struct Frame { pub prefix: usize, pub payload: usize, pub suffix: usize }
impl Frame {
    pub fn new(prefix: usize, payload: usize, suffix: usize) -> (r: Self)
        ensures r.prefix == prefix, r.payload == payload, r.suffix == suffix
    {
        Self {
            prefix,
            payload,
            suffix,
        }
    }
    pub fn len(&self) -> (r: usize)
        requires self.prefix + self.payload + self.suffix <= usize::MAX
        ensures r == self.prefix + self.payload + self.suffix
    {
        self.prefix + self.payload + self.suffix
    }
}

pub struct LengthDelimited {
    pub length_field_len: usize,
    pub length_field_is_big_endian: bool,
}

pub uninterp spec fn be_val(b: Seq<u8>) -> u64;
pub uninterp spec fn le_val(b: Seq<u8>) -> u64;

impl LengthDelimited {
    const MAX_LFL: usize = 8;

    fn extract(&mut self, buf: &[u8]) -> (r: std::io::Result<Option<Frame>>)
        requires old(self).length_field_len <= 8
        ensures match r { Ok(Some(f)) => f.prefix + f.payload + f.suffix <= buf@.len(), _ => true }
    {
        if buf.len() < self.length_field_len {
            return Ok(None);
        }

        let lfl = self.length_field_len;
        let mut len_bytes = [0; Self::MAX_LFL];

        let len = if self.length_field_is_big_endian {
            len_bytes[Self::MAX_LFL - lfl..].copy_from_slice(&buf[..lfl]);
            u64::from_be_bytes(len_bytes)
        } else {
            len_bytes[..lfl].copy_from_slice(&buf[..lfl]);
            u64::from_le_bytes(len_bytes)
        } as usize;

        if buf.len() < self.length_field_len + len {
            return Ok(None);
        }

        Ok(Some(Frame::new(self.length_field_len, len, 0)))
    }
}

} // verus!
fn main() {}
