#![allow(unused)]
use compio_buf::*;

/// zero-cost IoBuf double: reports an arbitrary initialised length without owning memory
pub struct Abs { len: usize }
impl IoBuf for Abs {
    fn as_init(&self) -> &[u8] {
        // never dereferenced by `slice()`; only `.len()` is read
        unsafe { let z: &[()] = std::slice::from_raw_parts(std::ptr::NonNull::<()>::dangling().as_ptr(), self.len); std::mem::transmute::<&[()], &[u8]>(z) }
    }
}

#[cfg(kani)]
mod proofs {
    use super::*;
    #[kani::proof]
    fn slice_contract_range_from() {
        let len: usize = kani::any(); kani::assume(len <= isize::MAX as usize);
        let a: usize = kani::any();
        kani::assume(a <= len);                 // documented precondition (else panics)
        let s = Abs { len }.slice(a..);
        assert!(s.begin() == a && s.end().is_none());
    }
    #[kani::proof]
    fn slice_contract_range() {
        let len: usize = kani::any(); kani::assume(len <= isize::MAX as usize);
        let a: usize = kani::any(); let b: usize = kani::any();
        kani::assume(a <= len && a <= b);
        let s = Abs { len }.slice(a..b);
        assert!(s.begin() == a && s.end() == Some(b));
    }
    #[kani::proof]
    fn slice_contract_range_to_inclusive() {
        let len: usize = kani::any(); kani::assume(len <= isize::MAX as usize);
        let b: usize = kani::any();
        kani::assume(b < usize::MAX);
        let s = Abs { len }.slice(..=b);
        assert!(s.begin() == 0 && s.end() == Some(b + 1));
    }
}
