#![allow(unused)]
use compio_buf::*;
use compio_io::{*, compat::SyncStream};
use std::{future::Future, io::{Read, Write}, pin::pin, task::{Context, Poll, Waker}};

fn run<F: Future>(f: F) -> F::Output {
    let mut f = pin!(f);
    let mut cx = Context::from_waker(Waker::noop());
    match f.as_mut().poll(&mut cx) { Poll::Ready(v) => v, Poll::Pending => panic!("pending") }
}

/// Inner stream double: accepts at most `wsched[i]` bytes on the i-th write (0 => WriteZero-like Ok(0) never; we use >=1), records them.
struct Inner { got: [u8; 8], n: usize, wsched: [u8; 4], step: usize, src: [u8; 4], rpos: usize, rsched: [u8; 4], rstep: usize }
impl AsyncWrite for Inner {
    async fn write<T: IoBuf>(&mut self, buf: T) -> BufResult<usize, T> {
        let c = if self.step < 4 { self.wsched[self.step] as usize } else { 8 };
        self.step += 1;
        let s = buf.as_init();
        let k = c.min(s.len()).min(8 - self.n);
        let mut i = 0; while i < k { self.got[self.n + i] = s[i]; i += 1; }
        self.n += k;
        BufResult(Ok(k), buf)
    }
    async fn flush(&mut self) -> std::io::Result<()> { Ok(()) }
    async fn shutdown(&mut self) -> std::io::Result<()> { Ok(()) }
}
impl AsyncRead for Inner {
    async fn read<B: IoBufMut>(&mut self, mut buf: B) -> BufResult<usize, B> {
        let c = if self.rstep < 4 { self.rsched[self.rstep] as usize } else { 4 };
        self.rstep += 1;
        let dst = B::as_uninit(&mut buf);
        let k = c.min(4 - self.rpos).min(dst.len());
        let mut i = 0; while i < k { dst[i].write(self.src[self.rpos + i]); i += 1; }
        unsafe { SetLenExt::advance_to(&mut buf, k) };
        self.rpos += k;
        BufResult(Ok(k), buf)
    }
}

#[cfg(kani)]
mod proofs {
    use super::*;
    #[kani::proof]
    #[kani::unwind(10)]
    fn sync_write_fifo() {
        let wsched: [u8; 4] = kani::any();
        kani::assume(wsched[0] >= 1 && wsched[1] >= 1 && wsched[2] >= 1 && wsched[3] >= 1);
        let inner = Inner { got: [0; 8], n: 0, wsched, step: 0, src: [0; 4], rpos: 0, rsched: [4; 4], rstep: 0 };
        let mut s = SyncStream::with_limits(2, 4, inner);
        let data: [u8; 3] = kani::any();
        let mut accepted = 0usize;
        match s.write(&data) { Ok(k) => accepted = k, Err(_) => {} }
        assert!(accepted <= 3);
        match run(s.flush_write_buf()) { Ok(_) => {}, Err(_) => { assert!(false); } }
        let inner = s.get_ref();
        assert!(inner.n == accepted);
        let mut i = 0; while i < accepted { assert!(inner.got[i] == data[i]); i += 1; }
    }
}
