#!/usr/bin/env python3
"""Weaver: splice the *real* function bodies of /repo into a Verus contract overlay.

    weave.py UNIT_DIR [--repo /repo] [--out FILE] [--meta FILE]

See DESIGN.md section 2.1.  Overlay directives (lines starting with `//@`):

  //@ include REL/PATH.vrs [trusted]
  //@ macro  FILE :: NAME
  //@ struct FILE :: NAME [derive(...)]
  //@ fn  FILE :: CONTAINER :: NAME [sync] [nopub] [trusted] [ret "TYPE"] [until "TEXT"] [rename NEW]
        <contract clauses, raw Verus text>
      //@ attr   <attribute text>
      //@ prologue            (followed by raw ghost text, inserted after the opening brace)
      //@ loop N              (followed by invariant/decreases text, inserted before the N-th loop body)
      //@ at "TEXT" [after]   (followed by ghost text inserted before (after) the first match of TEXT)
      //@ subst "FROM" => "TO"   (explicit, logged token substitution in signature+body)
  //@ end
  //@ sig FILE :: CONTAINER :: NAME [sync] [ret "TYPE"]     (signature only, e.g. trait method declarations)
        <contract clauses>
  //@ end

CONTAINER is the impl/trait header (token-normalised, `where` clause ignored), `trait NAME`, or `-` for a
free function.  Exit status: 0 ok, 2 anchor lost / unsupported (never an alarm).
"""
import hashlib
import json
import os
import re
import sys

sys.path.insert(0, os.path.dirname(os.path.abspath(__file__)))
import rtok  # noqa: E402
from rtok import tokenize, norm, norm_text, match_close, Tok  # noqa: E402

VERUS_MODS = {'open', 'closed', 'spec', 'proof', 'exec', 'uninterp', 'broadcast', 'tracked', 'ghost', 'axiom'}


PRIMS = {'u8', 'u16', 'u32', 'u64', 'u128', 'usize', 'i8', 'i16', 'i32', 'i64', 'i128', 'isize', 'bool', 'str', 'char',
         'f32', 'f64'}


class AnchorLost(Exception):
    pass


class Unsupported(Exception):
    pass


GHOST_B = '/*@ghost{*/'
GHOST_E = '/*@}ghost*/'


def ghost(text):
    return f'{GHOST_B} {text.strip()} {GHOST_E}'


class Repo:
    def __init__(self, root):
        self.root = root
        self.cache = {}

    def file(self, rel):
        if rel not in self.cache:
            p = os.path.join(self.root, rel)
            if not os.path.exists(p):
                raise AnchorLost(f'file not found: {rel}')
            self.cache[rel] = rtok.SourceFile(rel, open(p).read())
        return self.cache[rel]


def container_matches(item, spec):
    spec_n = norm_text(spec)
    if item.kind == 'trait':
        return spec_n == f'trait {item.name}' or item.header_norm(drop_where=True) == spec_n
    if item.kind == 'impl':
        h = item.header_norm(drop_where=True)
        # drop visibility / unsafe in front of impl
        h = re.sub(r'^(unsafe )?', '', h)
        return h == spec_n
    return False


def find_fn(sf, container, name):
    cands = []
    if container.strip() == '-':
        cands = [it for it in sf.items if it.kind == 'fn' and it.name == name]
        # also inside (non-test) inline modules
        for it in sf.items:
            if it.kind == 'mod' and it.name not in ('test', 'tests'):
                cands += [c for c in it.children if c.kind == 'fn' and c.name == name]
    else:
        for it in sf.all_items():
            if it.kind in ('impl', 'trait') and container_matches(it, container):
                cands += [c for c in it.children if c.kind == 'fn' and c.name == name]
    if not cands:
        raise AnchorLost(f'{sf.path} :: {container} :: {name}: not found')
    if len(cands) > 1:
        raise AnchorLost(f'{sf.path} :: {container} :: {name}: ambiguous ({len(cands)} matches)')
    return cands[0]


def find_named(sf, kind, name):
    c = [it for it in sf.all_items() if it.kind == kind and it.name == name]
    if len(c) != 1:
        raise AnchorLost(f'{sf.path} :: {kind} {name}: {"not found" if not c else "ambiguous"}')
    return c[0]


# ---------------------------------------------------------------- token list helpers

def T(kind, text, line=0):
    return Tok(kind, text, -1, -1, line)


def render(toks, src=None):
    """Render tokens back to text.  Tokens that come from the source (start>=0) and are contiguous are
    emitted with their original inter-token whitespace (comments inside are dropped)."""
    out = []
    prev = None
    for t in toks:
        if prev is not None:
            if src is not None and prev.start >= 0 and t.start >= 0 and t.start >= prev.end:
                gap = src[prev.end:t.start]
                if '//' in gap or '/*' in gap:
                    gap = '\n' + ' ' * 8 if '\n' in gap else ' '
                elif gap.strip():
                    gap = ' '   # tokens were dropped in between (a rewrite): never re-emit their text
                out.append(gap if gap else '')
            elif prev.text in (';', '{', '}') or (t.text == '}' and prev.text != '{'):
                out.append('\n        ')
            else:
                out.append(' ')
        out.append(t.text)
        prev = t
    return ''.join(out)


def find_seq(toks, pat, start=0):
    """index of first occurrence of token-text sequence pat in toks (from start) or -1"""
    n = len(pat)
    for i in range(start, len(toks) - n + 1):
        if all(toks[i + k].text == pat[k] for k in range(n)):
            return i
    return -1


def texts(s):
    return [t.text for t in tokenize(s)]


# ---------------------------------------------------------------- macro expansion (R6)

class Macro:
    """a macro_rules! definition: one or more arms, fragment kinds ident/expr/ty only, no repetitions"""

    def __init__(self, sf, item):
        toks = sf.toks
        inner = toks[item.body_lo + 1:item.hi]
        self.name = item.name
        self.arms = []
        i = 0
        while i < len(inner):
            if inner[i].text == ';':
                i += 1
                continue
            if inner[i].text not in ('(', '[', '{'):
                raise Unsupported(f'macro {item.name}: arm shape')
            pe = match_close(inner, i)
            if inner[pe + 1].text != '=>':
                raise Unsupported(f'macro {item.name}: expected =>')
            bs = pe + 2
            be = match_close(inner, bs)
            self.arms.append(MacroArm(item.name, inner[i + 1:pe], inner[bs + 1:be]))
            i = be + 1
        if not self.arms:
            raise Unsupported(f'macro {item.name}: no arms')

    def expand(self, args):
        last = None
        for arm in self.arms:
            try:
                return arm.expand(args)
            except Unsupported as e:
                last = e
        raise last


class MacroArm:
    def __init__(self, name, pattern, body):
        self.name = name
        self.pattern = pattern
        self.block = False
        if body and body[0].text == '{' and match_close(body, 0) == len(body) - 1:
            self.block = True  # `{{ ... }}`: expands to a block expression
            body = body[1:-1]
        self.body = body
        # pattern elements
        self.elems = []
        i = 0
        p = self.pattern
        while i < len(p):
            if p[i].text == '$':
                if p[i + 1].text == '(':
                    raise Unsupported(f'macro {name}: repetitions are not supported by the weaver')
                var, kind = p[i + 1].text, p[i + 3].text
                if kind not in ('ident', 'expr', 'ty'):
                    raise Unsupported(f'macro {name}: fragment kind {kind}')
                self.elems.append(('var', var, kind))
                i += 4
            else:
                self.elems.append(('lit', p[i].text, None))
                i += 1

    def match(self, args):
        binds = {}
        i = 0
        for k, (what, a, kind) in enumerate(self.elems):
            if what == 'lit':
                if i >= len(args) or args[i].text != a:
                    raise Unsupported(f'macro {self.name}: invocation does not match pattern at `{a}`')
                i += 1
                continue
            if kind == 'ident':
                binds[a] = [args[i]]
                i += 1
                continue
            # expr / ty : up to next literal at depth 0 (or the end)
            nxt = None
            for w2, a2, _ in self.elems[k + 1:]:
                if w2 == 'lit':
                    nxt = a2
                break
            j = i
            ang = 0
            while j < len(args):
                t = args[j]
                if t.kind == 'punct' and t.text in rtok.OPEN:
                    j = match_close(args, j) + 1
                    continue
                if kind == 'ty' and t.text == '<':
                    ang += 1
                if kind == 'ty' and t.text == '>':
                    ang -= 1
                if nxt is not None and t.text == nxt and ang == 0:
                    break
                if kind == 'expr' and t.text in (',', ';', '=>'):
                    break  # an expression fragment never contains these at depth 0
                j += 1
            binds[a] = args[i:j]
            i = j
        # optional trailing comma
        if i < len(args) and args[i].text == ',':
            i += 1
        if i != len(args):
            raise Unsupported(f'macro {self.name}: trailing tokens in invocation')
        return binds

    def expand(self, args):
        binds = self.match(args)
        out = []
        b = self.body
        i = 0
        renamed = set()
        while i < len(b):
            t = b[i]
            if t.text == '$' and i + 1 < len(b) and b[i + 1].kind == 'ident':
                v = b[i + 1].text
                if v == 'crate':
                    out.append(T('ident', 'crate'))
                    i += 2
                    continue
                if v not in binds:
                    raise Unsupported(f'macro {self.name}: unbound ${v}')
                frag = binds[v]
                kind = [k for (w, a, k) in self.elems if w == 'var' and a == v][0]
                if kind == 'expr' and len(frag) > 1:
                    out.append(T('punct', '('))
                    out.extend(frag)
                    out.append(T('punct', ')'))
                else:
                    out.extend(frag)
                i += 2
                continue
            if t.kind == 'ident' and t.text not in rtok.KEYWORDS and (t.text[0].islower() or t.text[0] == '_') \
                    and t.text != '_':
                prev = b[i - 1].text if i > 0 else ''
                nxt = b[i + 1].text if i + 1 < len(b) else ''
                if prev not in ('.', '::', '$', 'as') and nxt not in ('::', '!', '(') and t.text not in PRIMS:
                    # macro-local binding or reference to one: hygiene rename
                    out.append(T('ident', t.text + '__m', t.line))
                    renamed.add(t.text)
                    i += 1
                    continue
            out.append(T(t.kind, t.text, t.line))
            i += 1
        if self.block:
            out = [T('punct', '{')] + out + [T('punct', '}')]
        return out, sorted(renamed)


# ---------------------------------------------------------------- rewrites on token lists

def rw_r9(toks, log, where):
    """R9: drop `#[cfg(feature = "allocator_api")] A: ...` generic params, t_alloc!(X, T, A) -> X<T>"""
    out = []
    i = 0
    while i < len(toks):
        t = toks[i]
        if t.text == '#' and i + 1 < len(toks) and toks[i + 1].text == '[':
            e = match_close(toks, i + 1)
            attr = norm(toks[i:e + 1])
            if 'allocator_api' in attr:
                # drop attribute and the generic parameter up to ',' or '>' at depth 0
                j = e + 1
                ang = 0
                while j < len(toks):
                    x = toks[j]
                    if x.text == '<':
                        ang += 1
                    elif x.text == '>':
                        if ang == 0:
                            break
                        ang -= 1
                    elif x.text == ',' and ang == 0:
                        j += 1
                        break
                    j += 1
                # remove a now-dangling comma before '>'
                if out and out[-1].text == ',' and j < len(toks) and toks[j].text == '>':
                    out.pop()
                log.append({'rule': 'R9', 'what': 'dropped allocator_api generic parameter', 'where': where,
                            'line': t.line})
                i = j
                continue
        if t.text == 't_alloc' and i + 2 < len(toks) and toks[i + 1].text == '!' and toks[i + 2].text == '(':
            e = match_close(toks, i + 2)
            inner = toks[i + 3:e]
            # split on commas at depth 0
            parts, cur, d = [], [], 0
            for x in inner:
                if x.text in rtok.OPEN or x.text == '<':
                    d += 1
                if x.text in rtok.CLOSE or x.text == '>':
                    d -= 1
                if x.text == ',' and d == 0:
                    parts.append(cur)
                    cur = []
                else:
                    cur.append(x)
            parts.append(cur)
            out.extend(parts[0] + [T('punct', '<')] + parts[1] + [T('punct', '>')])
            log.append({'rule': 'R9', 'what': 't_alloc! -> non-allocator_api expansion', 'where': where,
                        'line': t.line})
            i = e + 1
            continue
        # empty generic list `<>` left over
        out.append(t)
        i += 1
    # remove `< >`
    res = []
    i = 0
    while i < len(out):
        if out[i].text == '<' and i + 1 < len(out) and out[i + 1].text == '>':
            i += 2
            continue
        res.append(out[i])
        i += 1
    return res


def rw_await(toks, log, where):
    out = []
    i = 0
    while i < len(toks):
        if toks[i].text == '.' and i + 1 < len(toks) and toks[i + 1].text == 'await':
            log.append({'rule': 'R5', 'what': '.await removed (synchronous projection)', 'where': where,
                        'line': toks[i].line})
            i += 2
            continue
        out.append(toks[i])
        i += 1
    return out


_ERR_NEW_PREFIXES = [
    [':', ':', 'std', '::', 'io', '::', 'Error', '::', 'new'],
    ['::', 'std', '::', 'io', '::', 'Error', '::', 'new'],
    ['std', '::', 'io', '::', 'Error', '::', 'new'],
    ['io', '::', 'Error', '::', 'new'],
]


def rw_io_error(toks, log, where):
    """R7: io::Error::new(KIND, MSG) -> vshim::io_error(KIND)"""
    out = []
    i = 0
    while i < len(toks):
        hit = None
        for p in _ERR_NEW_PREFIXES:
            if [t.text for t in toks[i:i + len(p)]] == p and i + len(p) < len(toks) and toks[i + len(p)].text == '(':
                hit = p
                break
        if hit:
            po = i + len(hit)
            pc = match_close(toks, po)
            inner = toks[po + 1:pc]
            # first argument up to ',' at depth 0
            j = 0
            while j < len(inner):
                if inner[j].text in rtok.OPEN:
                    j = match_close(inner, j) + 1
                    continue
                if inner[j].text == ',':
                    break
                j += 1
            kind = inner[:j]
            out.extend([T('ident', 'vshim_io_error'), T('punct', '(')] + kind + [T('punct', ')')])
            log.append({'rule': 'R7', 'what': 'io::Error::new(KIND, msg) -> vshim_io_error(KIND) (message dropped)',
                        'where': where, 'line': toks[i].line})
            i = pc + 1
            continue
        out.append(toks[i])
        i += 1
    return out


_BYTES_FNS = {'from_be_bytes': 'vshim_u64_from_be', 'from_le_bytes': 'vshim_u64_from_le'}


def rw_bytes(toks, log, where):
    """R10: u64::from_be_bytes(x) -> vshim_u64_from_be(x); x.to_be_bytes() -> vshim_u64_to_be(x) (only simple receivers)"""
    out = []
    i = 0
    while i < len(toks):
        t = toks[i]
        if t.text == 'u64' and i + 3 < len(toks) and toks[i + 1].text == '::' and toks[i + 2].text in _BYTES_FNS \
                and toks[i + 3].text == '(':
            out.append(T('ident', _BYTES_FNS[toks[i + 2].text]))
            log.append({'rule': 'R10', 'what': f'u64::{toks[i + 2].text} -> vshim', 'where': where, 'line': t.line})
            i += 3
            continue
        out.append(t)
        i += 1
    return out


def apply_subst(toks, frm, to, log, where):
    p = texts(frm)
    r = tokenize(to)
    out = []
    i = 0
    n = 0
    while i < len(toks):
        if [t.text for t in toks[i:i + len(p)]] == p:
            out.extend(T(x.kind, x.text, toks[i].line) for x in r)
            i += len(p)
            n += 1
            continue
        out.append(toks[i])
        i += 1
    if n == 0:
        raise AnchorLost(f'{where}: subst pattern not found: {frm}')
    log.append({'rule': 'R12', 'what': f'explicit substitution `{frm}` => `{to}` ({n}x)', 'where': where})
    return out


def expand_macros(toks, macros, log, where, depth=0):
    if depth > 4:
        raise Unsupported('macro recursion')
    out = []
    i = 0
    while i < len(toks):
        t = toks[i]
        if t.kind == 'ident' and t.text in macros and i + 2 < len(toks) and toks[i + 1].text == '!' \
                and toks[i + 2].text in ('(', '{', '['):
            e = match_close(toks, i + 2)
            args = toks[i + 3:e]
            exp, renamed = macros[t.text].expand(args)
            exp = expand_macros(exp, macros, log, where, depth + 1)
            log.append({'rule': 'R6', 'what': f'expanded {t.text}! (hygiene-renamed: {", ".join(renamed)})',
                        'where': where, 'line': t.line})
            out.extend(exp)
            i = e + 1
            continue
        out.append(t)
        i += 1
    return out


def loop_body_braces(toks):
    """indices of the '{' that opens the body of each while/loop/for, in source order"""
    res = []
    for i, t in enumerate(toks):
        if t.kind == 'ident' and t.text in ('while', 'loop', 'for'):
            if t.text == 'for' and i > 0 and toks[i - 1].text in ('impl', '>'):  # `impl X for Y` / HRTB
                continue
            j = i + 1
            while j < len(toks):
                x = toks[j]
                if x.text in ('(', '['):
                    j = match_close(toks, j) + 1
                    continue
                if x.text == '{':
                    res.append(j)
                    break
                if x.text == ';':
                    break
                j += 1
    return res


# ---------------------------------------------------------------- directive parsing

class Directive:
    def __init__(self, kind, head, line, path):
        self.kind = kind
        self.head = head
        self.line = line
        self.path = path
        self.contract = []
        self.sections = []  # (kind, arg, [lines])
        self.opts = {}

    def parse_head(self):
        h = self.head
        # options with quoted strings
        for m in re.finditer(r'\b(ret|until|rename|generics)\s+"((?:[^"\\]|\\.)*)"', h):
            self.opts[m.group(1)] = m.group(2).replace('\\"', '"')
        h = re.sub(r'\b(ret|until|rename|generics)\s+"((?:[^"\\]|\\.)*)"', '', h)
        m = re.search(r'\brename\s+(\w+)', h)
        if m:
            self.opts['rename'] = m.group(1)
            h = h[:m.start()] + h[m.end():]
        parts = [p.strip() for p in h.split(' :: ')]
        # flags are trailing bare words of the last part
        flags = set()
        last = parts[-1].split()
        while last and last[-1] in ('sync', 'nopub', 'trusted', 'inherent', 'keepvis'):
            flags.add(last.pop())
        parts[-1] = ' '.join(last)
        self.flags = flags
        self.parts = parts


def read_overlay(path, seen=None, trusted=False):
    """returns list of ('text', str) | ('dir', Directive) with includes resolved"""
    seen = seen or set()
    ap = os.path.abspath(path)
    if ap in seen:
        return []
    seen.add(ap)
    out = []
    lines = open(path).read().split('\n')
    i = 0
    cur = None
    sec = None
    while i < len(lines):
        ln = lines[i]
        s = ln.strip()
        if s.startswith('//@'):
            body = s[3:].strip()
            kw = body.split(None, 1)[0] if body else ''
            rest = body[len(kw):].strip()
            if cur is None:
                if kw == 'include':
                    a = rest.split()
                    inc = os.path.join(os.path.dirname(path), a[0])
                    out.extend(read_overlay(inc, seen, trusted or 'trusted' in a[1:]))
                elif kw in ('macro', 'struct', 'enum'):
                    d = Directive(kw, rest, i + 1, path)
                    d.parse_head()
                    out.append(('dir', d))
                elif kw in ('fn', 'sig'):
                    cur = Directive(kw, rest, i + 1, path)
                    cur.parse_head()
                    if trusted:
                        cur.flags.add('trusted')
                    sec = None
                elif kw in ('unit', 'note'):
                    out.append(('text', '// ' + body))
                else:
                    raise Unsupported(f'{path}:{i + 1}: unknown directive {kw}')
            else:
                if kw == 'end':
                    out.append(('dir', cur))
                    cur = None
                    sec = None
                elif kw in ('prologue', 'loop', 'at', 'epilogue'):
                    sec = (kw, rest, [])
                    cur.sections.append(sec)
                elif kw in ('subst', 'subst?'):
                    m = re.match(r'"((?:[^"\\]|\\.)*)"\s*=>\s*"((?:[^"\\]|\\.)*)"', rest)
                    if not m:
                        raise Unsupported(f'{path}:{i + 1}: bad subst')
                    cur.sections.append(('subst' if kw == 'subst' else 'subst?',
                                         (m.group(1).replace('\\"', '"'), m.group(2).replace('\\"', '"')), []))
                elif kw == 'attr':
                    cur.sections.append(('attr', rest, []))
                else:
                    raise Unsupported(f'{path}:{i + 1}: unknown directive {kw} inside fn block')
        else:
            if cur is None:
                out.append(('text', ln))
            elif sec is None:
                cur.contract.append(ln)
            else:
                sec[2].append(ln)
        i += 1
    if cur is not None:
        raise Unsupported(f'{path}: unterminated //@ fn block at line {cur.line}')
    return out


# ---------------------------------------------------------------- emission

def split_signature(sig):
    """sig: tokens from first modifier to just before body '{' (or ';').  Returns dict of parts."""
    i = 0
    vis, quals = [], []
    while i < len(sig) and sig[i].text != 'fn':
        t = sig[i]
        if t.text == 'pub':
            if i + 1 < len(sig) and sig[i + 1].text == '(':
                i = match_close(sig, i + 1) + 1
            else:
                i += 1
            vis = ['pub']
            continue
        quals.append(t)
        i += 1
    assert sig[i].text == 'fn'
    name = sig[i + 1]
    j = i + 2
    generics = []
    if sig[j].text == '<':
        d = 0
        k = j
        while True:
            if sig[k].text == '<':
                d += 1
            elif sig[k].text == '>':
                d -= 1
                if d == 0:
                    break
            elif sig[k].text in rtok.OPEN:
                k = match_close(sig, k)
            k += 1
        generics = sig[j:k + 1]
        j = k + 1
    assert sig[j].text == '(', f'expected ( in signature of {name.text}'
    pe = match_close(sig, j)
    params = sig[j:pe + 1]
    rest = sig[pe + 1:]
    ret, where = [], []
    if rest and rest[0].text == '->':
        k = 1
        d = 0
        while k < len(rest):
            if rest[k].text == 'where' and d == 0:
                break
            if rest[k].text == '<':
                d += 1
            elif rest[k].text == '>':
                d -= 1
            elif rest[k].text in rtok.OPEN:
                k = match_close(rest, k)
            k += 1
        ret = rest[1:k]
        where = rest[k:]
    else:
        where = rest
    return {'vis': vis, 'quals': quals, 'name': name, 'generics': generics, 'params': params, 'ret': ret,
            'where': where}


class Weaver:
    def __init__(self, repo_root):
        self.repo = Repo(repo_root)
        self.macros = {}
        self.functions = []
        self.rewrites = []
        self.structs = []
        self.out = []

    def line_no(self):
        return sum(s.count('\n') for s in self.out) + 1

    def emit(self, s):
        self.out.append(s + '\n')

    def do_macro(self, d):
        rel, name = d.parts[0], d.parts[1]
        sf = self.repo.file(rel)
        it = find_named(sf, 'macro_rules', name)
        self.macros[name] = Macro(sf, it)

    def do_struct(self, d):
        rel, name = d.parts[0], d.parts[1].split()[0]
        sf = self.repo.file(rel)
        it = find_named(sf, d.kind, name)
        toks = sf.toks
        hdr = [t for t in rtok.strip_attrs(toks[it.lo:(it.body_lo if it.body_lo >= 0 else it.hi + 1)])]
        # strip visibility
        h2 = []
        i = 0
        while i < len(hdr):
            if hdr[i].text == 'pub':
                if i + 1 < len(hdr) and hdr[i + 1].text == '(' and hdr[i + 2].text in ('crate', 'super', 'in', 'self'):
                    i = match_close(hdr, i + 1) + 1
                else:
                    i += 1
                continue
            h2.append(hdr[i])
            i += 1
        log = []
        where = f'{rel} :: {d.kind} {name}'
        h2 = rw_r9(h2, log, where)
        only = None
        mo = re.search(r'only\(([^)]*)\)', d.parts[1])
        if mo:
            only = {x.strip() for x in mo.group(1).split(',') if x.strip()}
        if d.kind == 'enum':
            body = toks[it.body_lo:it.hi + 1]
            txt = 'pub ' + render(h2) + ' ' + render(rtok.strip_attrs(body))
        elif it.body_lo >= 0:
            # named fields: make each `name: Type` pub
            body = rtok.strip_attrs(toks[it.body_lo + 1:it.hi])
            fields, cur, dpt = [], [], 0
            for t in body:
                if t.text in rtok.OPEN or t.text == '<':
                    dpt += 1
                if t.text in rtok.CLOSE or t.text == '>':
                    dpt -= 1
                if t.text == ',' and dpt == 0:
                    if cur:
                        fields.append(cur)
                    cur = []
                else:
                    cur.append(t)
            if cur:
                fields.append(cur)
            ftxt = []
            for f in fields:
                f = [t for k, t in enumerate(f) if not (t.text == 'pub')]
                # drop pub(crate) parens group if any
                if f and f[0].text == '(':
                    f = f[match_close(f, 0) + 1:]
                f = rw_r9(f, log, where)
                if only is not None and f and f[0].text not in only:
                    log.append({'rule': 'R13', 'what': f'struct projection: field `{f[0].text}` dropped (type not nameable in the '
                                'single-file unit; no extracted function mentions it)', 'where': where})
                    continue
                ftxt.append('    pub ' + render(f) + ',')
            txt = 'pub ' + render(h2) + ' {\n' + '\n'.join(ftxt) + '\n}'
        else:
            # tuple struct: header includes (...) ;
            # make tuple fields pub
            pi = next(k for k, t in enumerate(h2) if t.text == '(')
            pe = match_close(h2, pi)
            inner = h2[pi + 1:pe]
            fields, cur, dpt = [], [], 0
            for t in inner:
                if t.text in rtok.OPEN or t.text == '<':
                    dpt += 1
                if t.text in rtok.CLOSE or t.text == '>':
                    dpt -= 1
                if t.text == ',' and dpt == 0:
                    fields.append(cur)
                    cur = []
                else:
                    cur.append(t)
            if cur:
                fields.append(cur)
            fs = []
            for f in fields:
                f = [t for t in f if t.text != 'pub']
                if f and f[0].text == '(':
                    f = f[match_close(f, 0) + 1:]
                fs.append('pub ' + render(f))
            tail = [t for t in h2[pe + 1:] if t.text != ';']
            txt = 'pub ' + render(h2[:pi]) + '(' + ', '.join(fs) + ')' + (' ' + render(tail) if tail else '') + ';'
        log.append({'rule': 'R2', 'what': 'fields/visibility widened to pub; derives dropped', 'where': where})
        extra = re.sub(r'only\([^)]*\)', '', d.parts[1][len(name):]).strip()
        if extra.startswith('derive'):
            self.emit(f'#[{extra}]')
        self.emit(txt)
        self.rewrites += log
        self.structs.append({'file': rel, 'item': f'{d.kind} {name}', 'lines': [toks[it.lo].line, toks[it.hi].line]})

    def do_fn(self, d):
        if len(d.parts) != 3:
            raise Unsupported(f'{d.path}:{d.line}: fn directive needs FILE :: CONTAINER :: NAME')
        rel, container, name = d.parts
        sf = self.repo.file(rel)
        it = find_fn(sf, container, name)
        toks = sf.toks
        where = f'{rel} :: {container} :: {name}'
        log = []
        has_body = it.body_lo >= 0
        sig = rw_r9(toks[it.lo:(it.body_lo if has_body else it.hi)], log, where)
        sig = rtok.strip_attrs(sig)
        log.append({'rule': 'R1', 'what': 'doc comments / attributes on the item dropped', 'where': where})
        parts = split_signature(sig)
        sync = 'sync' in d.flags
        quals = parts['quals']
        if sync:
            if any(q.text == 'async' for q in quals):
                quals = [q for q in quals if q.text != 'async']
                log.append({'rule': 'R5', 'what': 'async fn -> fn (synchronous projection)', 'where': where})
        in_trait_like = (it.parent is not None and (it.parent.kind == 'trait' or
                                                     (it.parent.kind == 'impl' and ' for ' in
                                                      ' ' + it.parent.header_norm(drop_where=True) + ' ')))
        emit_pub = not in_trait_like and 'nopub' not in d.flags
        if 'inherent' in d.flags:
            emit_pub = 'nopub' not in d.flags
            log.append({'rule': 'R4', 'what': 'trait-impl method emitted as inherent method', 'where': where})
        ret = parts['ret']
        if 'ret' in d.opts:
            log.append({'rule': 'R4', 'what': f'return type `{norm(ret)}` written `{d.opts["ret"]}`', 'where': where})
            ret = tokenize(d.opts['ret'])
        nm = d.opts.get('rename', parts['name'].text)
        if nm != parts['name'].text:
            log.append({'rule': 'R12', 'what': f'function renamed {parts["name"].text} -> {nm}', 'where': where})
        body = toks[it.body_lo + 1:it.hi] if has_body else []
        if d.kind == 'sig':
            body = []
            has_body = False
        src_body_text = sf.text[toks[it.body_lo].start:toks[it.hi].end] if it.body_lo >= 0 else ''
        sha = hashlib.sha256(norm(toks[it.lo:it.hi + 1]).encode()).hexdigest()
        # ---- body rewrites
        tail_dropped = None
        if has_body and 'until' in d.opts:
            p = texts(d.opts['until'])
            k = find_seq(body, p)
            if k < 0:
                raise AnchorLost(f'{where}: until-text not found: {d.opts["until"]}')
            tail_dropped = render(body[k:], sf.text)
            body = body[:k]
            log.append({'rule': 'R11', 'what': 'statement-prefix extraction; tail not under contract',
                        'where': where, 'dropped_tail': tail_dropped})
        if has_body:
            body = rw_r9(body, log, where)
            body = expand_macros(body, self.macros, log, where)
            if sync:
                body = rw_await(body, log, where)
            body = rw_io_error(body, log, where)
            body = rw_bytes(body, log, where)
        params = parts['params']
        generics = parts['generics']
        if 'generics' in d.opts:
            if generics:
                raise Unsupported(f'{where}: generics option given but the source signature already has generics')
            generics = tokenize(d.opts['generics'])
            log.append({'rule': 'R12', 'what': f'generic parameter list `{d.opts["generics"]}` added (impl Trait argument named)',
                        'where': where})
        wherecl = parts['where']
        for kind, arg, lines in d.sections:
            if kind in ('subst', 'subst?'):
                allt = generics + [T('punct', '\x00')] + params + [T('punct', '\x00')] + ret + [T('punct', '\x00')] + \
                    wherecl + [T('punct', '\x00')] + body
                try:
                    allt = apply_subst(allt, arg[0], arg[1], log, where)
                except AnchorLost:
                    if kind == 'subst':
                        raise
                    # `subst?`: a redirection that only applies when the call is present (e.g. a std method that
                    # may or may not be used by the current body)
                segs, cur = [], []
                for t in allt:
                    if t.text == '\x00':
                        segs.append(cur)
                        cur = []
                    else:
                        cur.append(t)
                segs.append(cur)
                generics, params, ret, wherecl, body = segs
        # ---- ghost insertions (R8)
        inserts = []  # (token index, text, before?)
        if has_body:
            braces = loop_body_braces(body)
            for kind, arg, lines in d.sections:
                txt = '\n'.join(lines)
                if kind == 'loop':
                    n = int(arg)
                    if n < 1 or n > len(braces):
                        raise AnchorLost(f'{where}: loop {n} not found (body has {len(braces)} loops)')
                    inserts.append((braces[n - 1], '\n' + ghost(txt) + '\n'))
                elif kind == 'at':
                    m = re.match(r'"((?:[^"\\]|\\.)*)"\s*(after)?', arg)
                    if not m:
                        raise Unsupported(f'{d.path}: bad at-directive')
                    p = texts(m.group(1).replace('\\"', '"'))
                    k = find_seq(body, p)
                    if k < 0:
                        raise AnchorLost(f'{where}: at-text not found: {m.group(1)}')
                    if find_seq(body, p, k + 1) >= 0:
                        raise AnchorLost(f'{where}: at-text ambiguous: {m.group(1)}')
                    pos = k + len(p) if m.group(2) else k
                    inserts.append((pos, '\n' + ghost(txt) + '\n'))
        # ---- emit
        attrs = [arg for kind, arg, _ in d.sections if kind == 'attr']
        trusted = 'trusted' in d.flags
        start_line = self.line_no()
        for a in attrs:
            self.emit('    ' + a)
        if trusted and has_body:
            self.emit('    #[verifier::external_body]')
        head = ('pub ' if emit_pub else '') + ''.join(q.text + ' ' for q in quals) + 'fn ' + nm
        if generics:
            head += render(generics)
        head += render(params, sf.text)
        if ret:
            rt = render(ret)
            head += f' -> (r: {rt})'
            log.append({'rule': 'R3', 'what': 'return value named r', 'where': where})
        if wherecl:
            head += '\n    ' + render(wherecl)
        self.emit('    ' + head)
        contract = '\n'.join(d.contract).rstrip()
        if contract.strip():
            self.emit(contract)
        body_start = self.line_no()
        if not has_body:
            self.emit('    ;')
        elif trusted:
            self.emit('    { unimplemented!() }')
        else:
            pro = [ghost('\n'.join(lines)) for kind, arg, lines in d.sections if kind == 'prologue']
            # render body with inserts
            pieces = []
            last = 0
            for pos, txt in sorted(inserts, key=lambda x: x[0]):
                pieces.append(render(body[last:pos], sf.text))
                pieces.append(txt)
                last = pos
            pieces.append(render(body[last:], sf.text))
            epi = [ghost('\n'.join(lines)) for kind, arg, lines in d.sections if kind == 'epilogue']
            self.emit('    {' + (' ' + ' '.join(pro) if pro else ''))
            self.emit('        ' + ''.join(pieces))
            if epi:
                self.emit('        ' + ' '.join(epi))
            self.emit('    }')
        end_line = self.line_no() - 1
        # self-check material: the token stream we emitted for the body (without ghost text)
        self.functions.append({
            'id': f'{container} :: {nm}' if container != '-' else nm,
            'file': rel, 'container': container, 'name': name, 'emitted_name': nm,
            'src_lines': [toks[it.lo].line, toks[it.hi].line],
            'sha256': sha,
            'woven_lines': [start_line, end_line],
            'kind': d.kind if not trusted else d.kind + '-trusted',
            'body_tokens': norm(body) if has_body and not trusted else None,
            'rewrites': [r for r in log if r['rule'] not in ('R1', 'R3')],
            'dropped_tail': tail_dropped,
            'directive': f'{os.path.basename(d.path)}:{d.line}',
        })
        self.rewrites += log

    def weave(self, overlay_path):
        parts = read_overlay(overlay_path)
        for kind, x in parts:
            if kind == 'text':
                self.emit(x)
            else:
                d = x
                if d.kind == 'macro':
                    self.do_macro(d)
                elif d.kind in ('struct', 'enum'):
                    self.do_struct(d)
                else:
                    self.do_fn(d)
        return ''.join(self.out)


def self_check(woven, functions):
    """re-tokenise the woven text; for every extracted body, the emitted tokens minus ghost regions must equal the
    rewritten source token stream recorded at emission time."""
    # strip ghost regions
    lines = woven.split('\n')
    problems = []
    for f in functions:
        if f['body_tokens'] is None:
            continue
        lo, hi = f['woven_lines']
        seg = '\n'.join(lines[lo - 1:hi])
        seg = re.sub(re.escape(GHOST_B) + r'.*?' + re.escape(GHOST_E), ' ', seg, flags=re.S)
        t = norm_text(seg)
        if f['body_tokens'] not in t:
            problems.append(f['id'])
    return problems


def main(argv):
    import argparse
    ap = argparse.ArgumentParser()
    ap.add_argument('unit_dir')
    ap.add_argument('--repo', default='/repo')
    ap.add_argument('--out')
    ap.add_argument('--meta')
    a = ap.parse_args(argv)
    overlay = os.path.join(a.unit_dir, 'overlay.vrs')
    w = Weaver(a.repo)
    try:
        text = w.weave(overlay)
    except AnchorLost as e:
        print(f'ANCHOR-LOST {e}')
        return 2
    except (Unsupported, rtok.TokError) as e:
        print(f'UNSUPPORTED {e}')
        return 2
    bad = self_check(text, w.functions)
    if bad:
        print('SELF-CHECK-FAILED ' + ', '.join(bad))
        return 2
    out = a.out or os.path.join(a.unit_dir, 'woven.rs')
    open(out, 'w').write(text)
    meta = {'functions': w.functions, 'structs': w.structs, 'rewrites': w.rewrites}
    json.dump(meta, open(a.meta or out + '.meta.json', 'w'), indent=1)
    print(f'woven {len(w.functions)} functions -> {out}')
    return 0


if __name__ == '__main__':
    sys.exit(main(sys.argv[1:]))
