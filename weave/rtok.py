"""Small Rust tokenizer + item locator (python3 stdlib only).

Good enough for the compio sources: comments (nested block comments), strings, raw
strings, byte strings, chars vs lifetimes, numbers, identifiers, punctuation
(multi-char operators are split into single characters except `::`, `->`, `=>`,
`..`, `..=` which the weaver cares about).  Every token keeps its byte span so
text can be re-emitted verbatim.
"""
import re
from dataclasses import dataclass

KEYWORDS = {
    'as', 'async', 'await', 'break', 'const', 'continue', 'crate', 'dyn', 'else', 'enum', 'extern',
    'false', 'fn', 'for', 'if', 'impl', 'in', 'let', 'loop', 'match', 'mod', 'move', 'mut', 'pub',
    'ref', 'return', 'self', 'Self', 'static', 'struct', 'super', 'trait', 'true', 'type', 'unsafe',
    'use', 'where', 'while',
}


@dataclass
class Tok:
    kind: str   # ident, life, num, str, char, punct, comment
    text: str
    start: int
    end: int
    line: int

    def __repr__(self):
        return f'{self.kind}:{self.text!r}@{self.line}'


class TokError(Exception):
    pass


_ident_re = re.compile(r'[A-Za-z_][A-Za-z0-9_]*')
_num_re = re.compile(r'[0-9][0-9A-Za-z_]*(\.[0-9][0-9A-Za-z_]*)?')
_MULTI = ['..=', '...', '::', '->', '=>', '..', '+=', '-=', '*=', '/=', '%=', '^=', '|=', '&=', '==', '!=', '<=', '>=', '&&', '||']


def tokenize(src, keep_comments=False):
    toks = []
    i, n, line = 0, len(src), 1
    while i < n:
        c = src[i]
        if c == '\n':
            line += 1
            i += 1
            continue
        if c in ' \t\r':
            i += 1
            continue
        if src.startswith('//', i):
            j = src.find('\n', i)
            if j < 0:
                j = n
            if keep_comments:
                toks.append(Tok('comment', src[i:j], i, j, line))
            i = j
            continue
        if src.startswith('/*', i):
            depth, j = 1, i + 2
            while j < n and depth:
                if src.startswith('/*', j):
                    depth += 1
                    j += 2
                elif src.startswith('*/', j):
                    depth -= 1
                    j += 2
                else:
                    j += 1
            if keep_comments:
                toks.append(Tok('comment', src[i:j], i, j, line))
            line += src.count('\n', i, j)
            i = j
            continue
        # raw strings / byte strings
        m = re.match(r'(b|c)?r(#*)"', src[i:i + 40])
        if m:
            hashes = m.group(2)
            close = '"' + hashes
            j = src.find(close, i + m.end())
            if j < 0:
                raise TokError(f'unterminated raw string at line {line}')
            j += len(close)
            toks.append(Tok('str', src[i:j], i, j, line))
            line += src.count('\n', i, j)
            i = j
            continue
        if c == '"' or (c in 'bc' and src.startswith('"', i + 1)):
            j = i + (2 if c != '"' else 1)
            while j < n and src[j] != '"':
                j += 2 if src[j] == '\\' else 1
            j += 1
            toks.append(Tok('str', src[i:j], i, j, line))
            line += src.count('\n', i, j)
            i = j
            continue
        if c == "'" or (c == 'b' and src.startswith("'", i + 1)):
            k = i + (1 if c == 'b' else 0)
            # char literal or lifetime?
            if src[k + 1] == '\\':
                j = src.find("'", k + 3)
                toks.append(Tok('char', src[i:j + 1], i, j + 1, line))
                i = j + 1
                continue
            if k + 2 < n and src[k + 2] == "'":
                toks.append(Tok('char', src[i:k + 3], i, k + 3, line))
                i = k + 3
                continue
            m = _ident_re.match(src, k + 1)
            if m and c == "'":
                toks.append(Tok('life', src[i:m.end()], i, m.end(), line))
                i = m.end()
                continue
            # multi-byte char literal
            j = src.find("'", k + 1)
            toks.append(Tok('char', src[i:j + 1], i, j + 1, line))
            i = j + 1
            continue
        m = _ident_re.match(src, i)
        if m:
            # raw identifiers r#foo
            if m.group(0) == 'r' and src.startswith('#', m.end()):
                m2 = _ident_re.match(src, m.end() + 1)
                if m2:
                    toks.append(Tok('ident', src[i:m2.end()], i, m2.end(), line))
                    i = m2.end()
                    continue
            toks.append(Tok('ident', m.group(0), i, m.end(), line))
            i = m.end()
            continue
        m = _num_re.match(src, i)
        if m:
            e = m.end()
            # `0..x` must not swallow the dots; _num_re needs digit after '.'
            toks.append(Tok('num', src[i:e], i, e, line))
            i = e
            continue
        for mu in _MULTI:
            if src.startswith(mu, i):
                toks.append(Tok('punct', mu, i, i + len(mu), line))
                i += len(mu)
                break
        else:
            toks.append(Tok('punct', c, i, i + 1, line))
            i += 1
    return toks


OPEN = {'(': ')', '[': ']', '{': '}'}
CLOSE = {')', ']', '}'}


def match_close(toks, i):
    """toks[i] is an opening bracket; return index of its closing bracket."""
    depth = 0
    for j in range(i, len(toks)):
        t = toks[j]
        if t.kind == 'punct':
            if t.text in OPEN:
                depth += 1
            elif t.text in CLOSE:
                depth -= 1
                if depth == 0:
                    return j
    raise TokError(f'unbalanced bracket opened at line {toks[i].line}')


def norm(toks):
    return ' '.join(t.text for t in toks if t.kind != 'comment')


def norm_text(s):
    return norm(tokenize(s))


@dataclass
class Item:
    kind: str          # fn, impl, trait, struct, enum, mod, macro_rules, other
    name: str
    toks: list         # all tokens of the file
    attr_lo: int       # index of first attribute token (or == lo)
    lo: int            # first token of the item proper (after attributes)
    body_lo: int       # index of '{' (or -1 if no braced body)
    hi: int            # index of last token of the item (inclusive)
    children: list
    parent: object = None

    @property
    def header(self):
        end = self.body_lo if self.body_lo >= 0 else self.hi + 1
        return self.toks[self.lo:end]

    def header_norm(self, drop_where=False):
        h = strip_attrs(self.header)
        if drop_where:
            d = 0
            for k, t in enumerate(h):
                if t.text in ('<',):
                    d += 1
                elif t.text == '>':
                    d -= 1
                elif t.text == 'where' and d <= 0:
                    h = h[:k]
                    break
        return norm(h)


def strip_attrs(toks):
    """remove `#[...]` / `#![...]` attribute token groups"""
    out, i = [], 0
    while i < len(toks):
        t = toks[i]
        if t.text == '#' and i + 1 < len(toks) and (toks[i + 1].text == '[' or (
                toks[i + 1].text == '!' and i + 2 < len(toks) and toks[i + 2].text == '[')):
            j = i + 1 if toks[i + 1].text == '[' else i + 2
            i = match_close(toks, j) + 1
            continue
        out.append(t)
        i += 1
    return out


_MODS = {'pub', 'unsafe', 'async', 'const', 'extern', 'default'}


def parse_items(toks, lo, hi, parent=None):
    """parse items in toks[lo:hi) (hi exclusive)."""
    items = []
    i = lo
    while i < hi:
        attr_lo = i
        # attributes
        while i < hi and toks[i].text == '#':
            j = i + 1
            if toks[j].text == '!':
                j += 1
            if toks[j].text != '[':
                break
            i = match_close(toks, j) + 1
        if i >= hi:
            break
        start = i
        # modifiers
        k = i
        while k < hi and toks[k].kind == 'ident' and toks[k].text in _MODS:
            if toks[k].text == 'pub' and k + 1 < hi and toks[k + 1].text == '(':
                k = match_close(toks, k + 1) + 1
                continue
            if toks[k].text == 'extern' and k + 1 < hi and toks[k + 1].kind == 'str':
                k += 2
                continue
            if toks[k].text == 'const' and k + 1 < hi and toks[k + 1].text != 'fn' and toks[k + 1].text not in _MODS:
                break
            k += 1
        kw = toks[k].text if k < hi else ''
        kind, name = 'other', ''
        if kw in ('fn', 'trait', 'struct', 'enum', 'mod', 'union', 'type', 'const', 'static'):
            kind = kw
            if k + 1 < hi:
                name = toks[k + 1].text
        elif kw == 'impl':
            kind = 'impl'
        elif kw == 'macro_rules':
            kind = 'macro_rules'
            name = toks[k + 2].text
        elif kw == 'use':
            kind = 'use'
        # find end of item: first '{' or ';' at depth 0
        j = k
        body_lo = -1
        end = None
        while j < hi:
            t = toks[j]
            if t.kind == 'punct' and t.text in ('(', '['):
                j = match_close(toks, j) + 1
                continue
            if t.kind == 'punct' and t.text == '{':
                body_lo = j
                end = match_close(toks, j)
                # `struct X {..}` / fn / impl end here; `const X: T = Foo {..};` continues to ';'
                if kind in ('const', 'static', 'type', 'use', 'other') and kind != 'macro_rules':
                    # keep scanning to ';' (macro invocation `foo! { .. }` ends at '}')
                    if kind == 'other' and any(x.text == '!' for x in toks[k:j]):
                        pass
                    else:
                        j = end + 1
                        body_lo = -1
                        end = None
                        continue
                break
            if t.kind == 'punct' and t.text == ';':
                end = j
                break
            j += 1
        if end is None:
            end = hi - 1
        it = Item(kind, name, toks, attr_lo, start, body_lo, end, [], parent)
        if kind in ('impl', 'trait', 'mod') and body_lo >= 0:
            it.children = parse_items(toks, body_lo + 1, end, it)
        items.append(it)
        i = end + 1
    return items


class SourceFile:
    def __init__(self, path, text):
        self.path = path
        self.text = text
        self.toks = tokenize(text)
        self.items = parse_items(self.toks, 0, len(self.toks))

    def text_of(self, lo, hi):
        """source text of toks[lo..hi] inclusive"""
        return self.text[self.toks[lo].start:self.toks[hi].end]

    def all_items(self):
        def rec(items):
            for it in items:
                yield it
                yield from rec(it.children)
        yield from rec(self.items)
