#!/usr/bin/env python3
"""Development aid (not a registered check): run the VERUS half of a property's check against every seeded change, on a
scratch worktree, and report which baselined obligations fail.

    tools/seed_sweep.py [--repo /tmp/repo-seed] [SEED-ID ...]

The Kani half is not run here (use seeded/run_seeded.sh for the full check on /repo).  /repo is never touched.
"""
import argparse
import json
import os
import subprocess
import sys

HERE = os.path.dirname(os.path.abspath(__file__))
ROOT = os.path.dirname(HERE)
sys.path.insert(0, os.path.join(ROOT, 'vlib'))
sys.path.insert(0, os.path.join(ROOT, 'weave'))
import registry  # noqa: E402
import verus_unit  # noqa: E402


def main():
    ap = argparse.ArgumentParser()
    ap.add_argument('--repo', default='/tmp/repo-seed')
    ap.add_argument('seeds', nargs='*')
    a = ap.parse_args()
    if not os.path.isdir(a.repo):
        subprocess.run(['git', '-C', '/repo', 'worktree', 'add', '--detach', a.repo, 'HEAD'], check=True,
                       capture_output=True)
    sd = os.path.join(ROOT, 'seeded')
    seeds = a.seeds or sorted(d for d in os.listdir(sd) if os.path.exists(os.path.join(sd, d, 'patch.diff')))
    out = []
    for s in seeds:
        meta = json.load(open(os.path.join(sd, s, 'meta.json')))
        prop = meta['property']
        subprocess.run(['git', '-C', a.repo, 'checkout', '-q', '--', '.'])
        subprocess.run(['git', '-C', a.repo, 'checkout', '-q', '--detach',
                        subprocess.run(['git', '-C', '/repo', 'rev-parse', 'HEAD'], capture_output=True, text=True).stdout.strip()])
        p = subprocess.run(['git', '-C', a.repo, 'apply', os.path.join(sd, s, 'patch.diff')], capture_output=True, text=True)
        if p.returncode != 0:
            print(f'{s:7s} {prop} PATCH-DOES-NOT-APPLY {p.stderr.strip()[:100]}')
            out.append({'seed': s, 'result': 'patch does not apply'})
            continue
        units = registry.PROPS.get(prop, {}).get('verus', [])
        verdict = []
        for u in units:
            base = json.load(open(os.path.join(ROOT, 'units', u, 'baseline.json')))
            r = verus_unit.run_unit(u, repo=a.repo)
            if r['status'] != 'ok':
                verdict.append(f'{u}: UNDECIDED ({(r.get("reason") or "")[:90]})')
                continue
            bf = base.get('functions', base)
            failed = [f for f, st in r['functions'].items()
                      if st.get('status') != 'verified' and (bf.get(f, {}).get('status') if isinstance(bf.get(f), dict) else bf.get(f)) == 'verified']
            if failed:
                verdict.append(f'{u}: FAILS {", ".join(sorted(failed))[:160]}')
        if not verdict:
            verdict = ['verus silent']
        print(f'{s:7s} {prop} ' + ' | '.join(verdict), flush=True)
        out.append({'seed': s, 'verus': verdict})
    subprocess.run(['git', '-C', a.repo, 'checkout', '-q', '--', '.'])
    json.dump(out, open(os.path.join(ROOT, 'build', 'seed-sweep.json'), 'w'), indent=1)


if __name__ == '__main__':
    main()
