#!/usr/bin/env python3
"""Mutation analysis of the CONTRACTS (not a check; a development aid, results recorded in DESIGN §9.9).

    tools/mutate.py UNIT [--repo /tmp/repo-clean] [--max N]

For every function the unit extracts from the repository, apply one token-level mutation at a time inside that
function's source range (on a SCRATCH worktree, never on /repo), weave + verify the unit, and classify:
  killed     a baselined obligation fails                       (the contract has teeth for this change)
  undecided  the woven unit no longer compiles / anchor lost     (exit 2 in the real check: no alarm)
  survived   everything still verifies                           (either an equivalent mutant or a WEAK CONTRACT)
"""
import argparse
import json
import os
import subprocess
import sys

HERE = os.path.dirname(os.path.abspath(__file__))
ROOT = os.path.dirname(HERE)
sys.path.insert(0, os.path.join(ROOT, 'weave'))
sys.path.insert(0, os.path.join(ROOT, 'vlib'))
import rtok  # noqa: E402
import weave  # noqa: E402

OPS = {
    '<': ['<='], '<=': ['<'], '>': ['>='], '>=': ['>'], '==': ['!='], '!=': ['=='],
    '+': ['-'], '-': ['+'], '+=': ['-='], '-=': ['+='], '&&': ['||'], '||': ['&&'],
    'min': ['max'], 'max': ['min'], '0': ['1'], '1': ['0', '2'], 'true': ['false'], 'false': ['true'],
    'saturating_sub': ['wrapping_sub'], 'saturating_add': ['wrapping_add'], 'checked_add': ['wrapping_add'],
    'is_none': ['is_some'], 'is_some': ['is_none'],
    'buf_len': ['buf_capacity'], 'advance_to': ['advance'],
}
STRUCTURAL = True   # also: delete an expression statement, drop the right operand of a `+`/`-`, drop a `.min(..)`/`.max(..)` call


def run_unit(unit, repo):
    w = weave.Weaver(repo)
    try:
        text = w.weave(os.path.join(ROOT, 'units', unit, 'overlay.vrs'))
    except Exception as e:
        return 'undecided', f'{type(e).__name__}: {str(e)[:80]}'
    out = f'/tmp/vt/mut_{unit.replace("-", "_")}.rs'
    open(out, 'w').write(text)
    p = subprocess.run(['verus', '--edition', '2024', out, '--output-json', '--error-format=json', '--multiple-errors', '2'],
                       capture_output=True, text=True, cwd='/tmp/vt')
    try:
        j = json.loads(p.stdout)
    except Exception:
        return 'undecided', 'no json'
    vr = j.get('verification-results', {})
    diags = [json.loads(l) for l in p.stderr.split('\n') if l.strip().startswith('{')]
    if any(d.get('level') == 'error' and d.get('code') for d in diags) or \
            (vr.get('verified', 0) + vr.get('errors', 0) == 0):
        msg = next((d['message'] for d in diags if d.get('level') == 'error'), '')
        return 'undecided', msg[:80]
    return ('killed' if vr.get('errors', 0) > ncanary[0] else 'survived'), f"{vr.get('verified')}v/{vr.get('errors')}e"


ncanary = [0]


def main():
    ap = argparse.ArgumentParser()
    ap.add_argument('unit')
    ap.add_argument('--repo', default='/tmp/repo-clean')
    ap.add_argument('--max', type=int, default=400)
    ap.add_argument('--fn', default=None, help='only functions whose id contains this text')
    a = ap.parse_args()
    os.makedirs('/tmp/vt', exist_ok=True)
    subprocess.run(['git', '-C', a.repo, 'checkout', '-q', '--', '.'])
    # baseline: number of failing fns on the clean tree = canaries
    w = weave.Weaver(a.repo)
    w.weave(os.path.join(ROOT, 'units', a.unit, 'overlay.vrs'))
    st, info = run_unit(a.unit, a.repo)
    ncanary[0] = int(info.split('/')[1].rstrip('e')) if '/' in info else 0
    print(f'clean: {st} {info} (canaries={ncanary[0]})')
    targets = [f for f in w.functions if f['kind'] == 'fn' and (a.fn is None or a.fn in f['id'])]
    results = []
    n = 0
    for f in targets:
        path = os.path.join(a.repo, f['file'])
        src = open(path).read()
        toks = rtok.tokenize(src)
        lo, hi = f['src_lines']
        # only the body: tokens after the first '{' of the item
        inside = [t for t in toks if lo <= t.line <= hi]
        seen_brace = False
        cands = []   # (start, end, replacement, label, line)
        body_started = False
        for k, t in enumerate(inside):
            if t.text == '{' and not body_started:
                body_started = True
                continue
            if not body_started:
                continue
            for rep in OPS.get(t.text, []):
                cands.append((t.start, t.end, rep, f'`{t.text}`->`{rep}`', t.line))
            if not STRUCTURAL:
                continue
            # statement deletion: tokens after ; { } up to the next ';' at the same depth
            prev = inside[k - 1].text if k > 0 else ''
            if prev in (';', '{', '}') and t.kind == 'ident' and t.text not in ('let', 'return', 'if', 'match', 'while', 'loop',
                                                                          'for', 'unsafe', 'break', 'continue', 'else'):
                d = 0
                j = k
                while j < len(inside):
                    x = inside[j]
                    if x.text in rtok.OPEN:
                        d += 1
                    elif x.text in rtok.CLOSE:
                        d -= 1
                        if d < 0:
                            break
                    elif x.text == ';' and d == 0:
                        cands.append((t.start, x.end, '', 'delete statement', t.line))
                        break
                    j += 1
            # drop `.min(..)` / `.max(..)`
            if t.text == '.' and k + 2 < len(inside) and inside[k + 1].text in ('min', 'max') and inside[k + 2].text == '(':
                e = rtok.match_close(inside, k + 2)
                cands.append((t.start, inside[e].end, '', f'drop .{inside[k + 1].text}(..)', t.line))
            # drop right operand of + / - when it is a single token
            if t.text in ('+', '-') and k + 2 < len(inside) and inside[k + 1].kind in ('ident', 'num') \
                    and inside[k + 2].text in (')', ';', ',', '.', ']'):
                if inside[k + 2].text != '.':
                    cands.append((t.start, inside[k + 1].end, '', f'drop `{t.text} {inside[k + 1].text}`', t.line))
        for (st_, en_, rep, label, line) in cands:
            t = None
            if True:
                if n >= a.max:
                    break
                n += 1
                mutated = src[:st_] + rep + src[en_:]
                open(path, 'w').write(mutated)
                st, info = run_unit(a.unit, a.repo)
                line_text = src.split('\n')[line - 1].strip()
                results.append({'fn': f['id'], 'file': f['file'], 'line': line, 'mutation': label,
                                'status': st, 'info': info, 'text': line_text[:100]})
                print(f'{st:9s} {f["file"]}:{line} {label}  [{f["name"]}]  {line_text[:70]}')
                open(path, 'w').write(src)
    subprocess.run(['git', '-C', a.repo, 'checkout', '-q', '--', '.'])
    k = sum(1 for r in results if r['status'] == 'killed')
    u = sum(1 for r in results if r['status'] == 'undecided')
    s = sum(1 for r in results if r['status'] == 'survived')
    print(f'SUMMARY {a.unit}: mutants={len(results)} killed={k} undecided={u} survived={s}')
    json.dump(results, open(os.path.join(ROOT, 'build', f'mutants-{a.unit}.json'), 'w'), indent=1)


if __name__ == '__main__':
    main()
