#!/usr/bin/env python3
"""Development aid: compare build/seed-sweep.json (Verus half, scratch worktree) with what seeded/<id>/meta.json records as
the detecting engine. Prints seeds recorded as caught by a Verus obligation that the current contracts no longer fail
(a regression of the contracts), and seeds recorded as missed/Kani-only that a Verus obligation now fails."""
import json, os, sys
ROOT = os.path.dirname(os.path.dirname(os.path.abspath(__file__)))
sweep = {e['seed']: e for e in json.load(open(os.path.join(ROOT, 'build', 'seed-sweep.json')))}
reg, new = [], []
for sid, e in sorted(sweep.items()):
    m = json.load(open(os.path.join(ROOT, 'seeded', sid, 'meta.json')))
    det = m.get('detected_by', '')
    verus_recorded = 'Verus' in det and 'undecided' not in det.split('Verus')[0][-40:].lower()
    fails_now = any('FAILS' in v for v in e.get('verus', []))
    if 'Verus' in det and not fails_now:
        reg.append((sid, det[:90], e.get('verus')))
    if 'Verus' not in det and fails_now:
        new.append((sid, det[:60], e.get('verus')))
print('recorded as caught by Verus but silent/undecided now:')
for r in reg: print('  ', r)
print('now failing a Verus obligation although recorded otherwise:')
for r in new: print('  ', r)
