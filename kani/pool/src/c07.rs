use compio_buf::*;
use crate::buffer_pool::{BufferAlloc, BufferPoolRoot};
use crate::*;
fn ok<T, E>(r: Result<T, E>) -> T { match r { Ok(v) => v, Err(e) => { std::mem::forget(e); kani::assume(false); loop {} } } }
fn mk(n: u16) -> BufferPoolRoot { let mut d = Driver; ok(BufferPoolRoot::new(&mut d, BufferAlloc::new::<BoxAllocator>(), n, 2, 0)) }

#[kani::proof]
#[kani::unwind(4)]
pub fn probe_pop_drop() {
    let root = mk(2);
    let pool = root.get_pool();
    let a = ok(pool.pop());
    drop(a);
    std::mem::forget(pool);
    std::mem::forget(root);
}
