//! C07 (bounded): the REAL compio-driver/src/buffer_pool.rs + sys/buffer_pool/fallback.rs compiled verbatim by #[path]
//! (going through Proactor is out of CBMC's reach); `Driver` is a unit shim, nothing else is replaced.
#![allow(unused, clippy::all)]
#[path = "/repo/compio-driver/src/buffer_pool.rs"]
pub mod buffer_pool;
pub mod sys {
    pub struct Driver;
    #[path = "/repo/compio-driver/src/sys/buffer_pool/mod.rs"]
    mod buffer_pool;
    pub use buffer_pool::BufControl;
}
pub use sys::Driver;
pub use buffer_pool::*;
#[cfg(kani)]
pub mod c07;
#[cfg(kani)]
mod playback_gen;
