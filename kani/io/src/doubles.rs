//! Test doubles that play "the other side" (DESIGN §2.1: environment, not code under verification).
//! They implement the REAL compio-io traits and obey the abstract stream contract of units/common/stream.vrs.
use compio_buf::*;
use compio_io::*;
use std::io;

pub const INT: i8 = -1; // answer Err(Interrupted)
pub const ERR: i8 = -2; // answer Err(Other-ish): PermissionDenied, a kind no helper treats specially
pub const N: usize = 8;

/// sequential reader over `data[..len]` that answers according to a schedule of steps
/// (n > 0: deliver at most n bytes; 0: deliver up to capacity; INT / ERR: fail without consuming)
pub struct ChunkReader<const K: usize> {
    pub data: [u8; N],
    pub len: usize,
    pub pos: usize,
    pub steps: [i8; K],
    pub at: usize,
    pub calls: usize,
}
impl<const K: usize> ChunkReader<K> {
    pub fn new(data: [u8; N], len: usize, steps: [i8; K]) -> Self { Self { data, len, pos: 0, steps, at: 0, calls: 0 } }
    fn step(&mut self) -> i8 { let s = if self.at < K { self.steps[self.at] } else { 0 }; self.at += 1; self.calls += 1; s }
    fn deliver<B: IoBufMut>(&mut self, mut buf: B, max: usize) -> BufResult<usize, B> {
        let n = {
            let dst = buf.as_uninit();
            let mut n = self.len - self.pos;
            if n > max { n = max; }
            if n > dst.len() { n = dst.len(); }
            let mut i = 0;
            while i < n { dst[i].write(self.data[self.pos + i]); i += 1; }
            n
        };
        self.pos += n;
        unsafe { buf.advance_to(n) };
        BufResult(Ok(n), buf)
    }
}
impl<const K: usize> AsyncRead for ChunkReader<K> {
    async fn read<B: IoBufMut>(&mut self, buf: B) -> BufResult<usize, B> {
        match self.step() {
            INT => BufResult(Err(io::Error::from(io::ErrorKind::Interrupted)), buf),
            ERR => BufResult(Err(io::Error::from(io::ErrorKind::PermissionDenied)), buf),
            0 => self.deliver(buf, usize::MAX),
            n => self.deliver(buf, n as usize),
        }
    }
}

/// sequential writer into `sink` that accepts according to a schedule
/// (n > 0: accept at most n bytes; 0 after the schedule: accept everything; ZERO: accept nothing, Ok(0))
pub const ZERO: i8 = -3;
pub struct ChunkWriter<const K: usize> {
    pub sink: [u8; 2 * N],
    pub len: usize,
    pub steps: [i8; K],
    pub at: usize,
    pub flushed: usize,
}
impl<const K: usize> ChunkWriter<K> {
    pub fn new(steps: [i8; K]) -> Self { Self { sink: [0; 2 * N], len: 0, steps, at: 0, flushed: 0 } }
    fn step(&mut self) -> i8 { let s = if self.at < K { self.steps[self.at] } else { 0 }; self.at += 1; s }
    fn accept(&mut self, src: &[u8], max: usize) -> usize {
        let mut n = src.len();
        if n > max { n = max; }
        if n > 2 * N - self.len { n = 2 * N - self.len; }
        let mut i = 0;
        while i < n { self.sink[self.len + i] = src[i]; i += 1; }
        self.len += n;
        n
    }
}
impl<const K: usize> AsyncWrite for ChunkWriter<K> {
    async fn write<T: IoBuf>(&mut self, buf: T) -> BufResult<usize, T> {
        match self.step() {
            INT => BufResult(Err(io::Error::from(io::ErrorKind::Interrupted)), buf),
            ERR => BufResult(Err(io::Error::from(io::ErrorKind::PermissionDenied)), buf),
            ZERO => BufResult(Ok(0), buf),
            0 => { let n = self.accept(buf.as_init(), usize::MAX); BufResult(Ok(n), buf) }
            n => { let n = self.accept(buf.as_init(), n as usize); BufResult(Ok(n), buf) }
        }
    }
    async fn flush(&mut self) -> io::Result<()> { self.flushed += 1; Ok(()) }
    async fn shutdown(&mut self) -> io::Result<()> { Ok(()) }
}

/// poll a future that never pends exactly once
pub fn run<F: std::future::Future>(f: F) -> F::Output {
    let mut f = std::pin::pin!(f);
    let mut cx = std::task::Context::from_waker(std::task::Waker::noop());
    match f.as_mut().poll(&mut cx) {
        std::task::Poll::Ready(v) => v,
        std::task::Poll::Pending => panic!("a helper future returned Pending although nothing it awaits ever pends"),
    }
}

pub fn kind_of<T>(r: &io::Result<T>) -> Option<io::ErrorKind> { match r { Ok(_) => None, Err(e) => Some(e.kind()) } }
pub fn forget_err<T>(r: io::Result<T>) -> Option<T> { match r { Ok(v) => Some(v), Err(e) => { std::mem::forget(e); None } } }
