//! c13-cmsg (bounded): AncillaryBuf builder -> AncillaryIter round trip on the real code.
use compio_buf::*;
use compio_io::ancillary::*;
use std::mem::MaybeUninit;

/// 4-byte payload whose decoder CHECKS the slice it is handed (F8: a too-long slice is UB that a plain run
/// does not crash on; the decoder makes it observable)
#[derive(Clone, Copy, PartialEq, Eq)]
pub struct W4(pub u32);
impl AncillaryData for W4 {
    const SIZE: usize = 4;
    fn encode(&self, buffer: &mut [MaybeUninit<u8>]) -> Result<(), CodecError> {
        if buffer.len() < 4 { return Err(CodecError::BufferTooSmall); }
        assert!(buffer.len() == 4, "encode is handed exactly SIZE bytes");
        let b = self.0.to_ne_bytes();
        let mut i = 0; while i < 4 { buffer[i] = MaybeUninit::new(b[i]); i += 1; }
        Ok(())
    }
    fn decode(buffer: &[u8]) -> Result<Self, CodecError> {
        if buffer.len() < 4 { return Err(CodecError::BufferTooSmall); }
        assert!(buffer.len() == 4, "decode is handed exactly the payload");
        Ok(W4(u32::from_ne_bytes([buffer[0], buffer[1], buffer[2], buffer[3]])))
    }
}
/// 3-byte payload (padding inside CMSG_SPACE)
#[derive(Clone, Copy, PartialEq, Eq)]
pub struct B3(pub [u8; 3]);
impl AncillaryData for B3 {
    const SIZE: usize = 3;
    fn encode(&self, buffer: &mut [MaybeUninit<u8>]) -> Result<(), CodecError> {
        if buffer.len() < 3 { return Err(CodecError::BufferTooSmall); }
        let mut i = 0; while i < 3 { buffer[i] = MaybeUninit::new(self.0[i]); i += 1; }
        Ok(())
    }
    fn decode(buffer: &[u8]) -> Result<Self, CodecError> {
        if buffer.len() < 3 { return Err(CodecError::BufferTooSmall); }
        assert!(buffer.len() == 3, "decode is handed exactly the payload");
        Ok(B3([buffer[0], buffer[1], buffer[2]]))
    }
}

fn is_too_small(r: Result<(), CodecError>) -> bool {
    match r { Err(CodecError::BufferTooSmall) => true, Ok(()) => false, Err(e) => { std::mem::forget(e); false } }
}

/// two messages that exactly fill the buffer: same list comes back; a third push is refused and changes nothing
#[kani::proof]
#[kani::unwind(50)]
pub fn cmsg_roundtrip_two_full() {
    const N: usize = 48; // 2 * CMSG_SPACE(4) on x86-64
    let mut buf = AncillaryBuf::<N>::new();
    let (l1, t1, v1): (i32, i32, u32) = (kani::any(), kani::any(), kani::any());
    let (l2, t2, v2): (i32, i32, [u8; 3]) = (kani::any(), kani::any(), kani::any());
    {
        let mut b = buf.builder();
        assert!(b.push(l1, t1, &W4(v1)).is_ok());
        assert!(b.push(l2, t2, &B3(v2)).is_ok());
        assert!(is_too_small(b.push(l2, t2, &W4(v1))));
    }
    assert!(buf.as_init().len() == 48);
    let mut it = unsafe { AncillaryIter::new(&buf) };
    match it.next() {
        Some(a) => {
            assert!(a.level() == l1 && a.ty() == t1);
            match a.data::<W4>() { Ok(w) => assert!(w.0 == v1), Err(e) => { std::mem::forget(e); assert!(false) } }
        }
        None => assert!(false),
    }
    match it.next() {
        Some(b) => {
            assert!(b.level() == l2 && b.ty() == t2);
            match b.data::<B3>() { Ok(w) => assert!(w.0 == v2), Err(e) => { std::mem::forget(e); assert!(false) } }
        }
        None => assert!(false),
    }
    assert!(it.next().is_none());
}

/// buffer with room for one message only; pushing a second is BufferTooSmall, the first survives
#[kani::proof]
#[kani::unwind(50)]
pub fn cmsg_one_fits_second_refused() {
    const N: usize = 32; // CMSG_SPACE(4) = 24 <= 32 < 48
    let mut buf = AncillaryBuf::<N>::new();
    let (l1, t1, v1): (i32, i32, u32) = (kani::any(), kani::any(), kani::any());
    {
        let mut b = buf.builder();
        assert!(b.push(l1, t1, &W4(v1)).is_ok());
        assert!(is_too_small(b.push(7, 8, &W4(9))));
    }
    assert!(buf.as_init().len() == 24);
    let mut it = unsafe { AncillaryIter::new(&buf) };
    match it.next() {
        Some(a) => {
            assert!(a.level() == l1 && a.ty() == t1);
            match a.data::<W4>() { Ok(w) => assert!(w.0 == v1), Err(e) => { std::mem::forget(e); assert!(false) } }
        }
        None => assert!(false),
    }
    assert!(it.next().is_none());
}

/// AncillaryBuf as a buffer view (C10): prefix, lengths, set_len
#[kani::proof]
#[kani::unwind(20)]
pub fn ancillary_buf_view_contract() {
    let mut buf = AncillaryBuf::<16>::new();
    let n: usize = kani::any();
    kani::assume(n <= 16);
    unsafe { SetLen::set_len(&mut buf, n) };
    let (ip, il) = { let s = buf.as_init(); (s.as_ptr() as usize, s.len()) };
    let (up, ul) = { let s = buf.as_uninit(); (s.as_ptr() as usize, s.len()) };
    assert!(il == n && ul == 16 && ip == up);
}

/// 1-byte payload: CMSG_LEN(1) = 17 <= room = 20 < CMSG_SPACE(1) = 24 — the message does NOT fit (push advances by
/// CMSG_SPACE); it must be refused and the buffer must stay empty (seeded change C13-4)
#[derive(Clone, Copy, PartialEq, Eq)]
pub struct B1(pub u8);
impl AncillaryData for B1 {
    const SIZE: usize = 1;
    fn encode(&self, buffer: &mut [MaybeUninit<u8>]) -> Result<(), CodecError> {
        if buffer.is_empty() { return Err(CodecError::BufferTooSmall); }
        buffer[0] = MaybeUninit::new(self.0);
        Ok(())
    }
    fn decode(buffer: &[u8]) -> Result<Self, CodecError> {
        if buffer.is_empty() { return Err(CodecError::BufferTooSmall); }
        assert!(buffer.len() == 1, "decode is handed exactly the payload");
        Ok(B1(buffer[0]))
    }
}
#[kani::proof]
#[kani::unwind(50)]
pub fn cmsg_unaligned_payload_tight_buffer() {
    let mut buf = AncillaryBuf::<20>::new();
    let v: u8 = kani::any();
    {
        let mut b = buf.builder();
        assert!(is_too_small(b.push(1, 2, &B1(v))), "a message that does not fit the buffer was accepted");
    }
    assert!(buf.as_init().len() == 0);
    // and with room for exactly CMSG_SPACE(1) it fits and round-trips, padding included
    let mut buf = AncillaryBuf::<24>::new();
    {
        let mut b = buf.builder();
        assert!(b.push(1, 2, &B1(v)).is_ok());
    }
    assert!(buf.as_init().len() == 24);
    let mut it = unsafe { AncillaryIter::new(&buf) };
    match it.next() {
        Some(a) => match a.data::<B1>() { Ok(w) => assert!(w.0 == v), Err(e) => { std::mem::forget(e); assert!(false) } },
        None => assert!(false),
    }
    assert!(it.next().is_none());
}
