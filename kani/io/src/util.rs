//! helpers shared by the harnesses
pub fn any_le(n: usize) -> usize {
    #[cfg(kani)]
    { let x: usize = kani::any(); kani::assume(x <= n); return x; }
    #[cfg(not(kani))]
    { let _ = n; 0 }
}
/// `Result::ok()` without dragging `<io::Error as Debug>::fmt` into the harness
pub fn ok<T>(r: std::io::Result<T>) -> Option<T> { match r { Ok(v) => Some(v), Err(e) => { std::mem::forget(e); None } } }
pub fn vec_with(cap: usize, bytes: &[u8]) -> Vec<u8> {
    let mut v = Vec::with_capacity(cap);
    let mut i = 0;
    while i < bytes.len() { v.push(bytes[i]); i += 1; }
    v
}
