//! c11-buffer (bounded): compio-io's Buffer (private module, reached through the guarded re-export hook
//! `compio_io::verif_export`) — the pieces outside the Verus subset (compact_to: Vec-specific std calls; `with`:
//! async closure) and a pointer-level cross-check of the Verus contracts of advance / flush_to.
use compio_buf::*;
use compio_io::verif_export::Buffer;
use compio_io::*;
use std::io::ErrorKind;
use crate::doubles::*;
use crate::util::*;

fn push(b: &mut Buffer, bytes: &[u8]) {
    let r = b.with_sync(|mut inner| {
        let r = inner.extend_from_slice(bytes);
        BufResult(match r { Ok(()) => Ok(()), Err(e) => { std::mem::forget(e); Ok(()) } }, inner)
    });
    std::mem::forget(r);
}

/// append 3 bytes, consume k, compact, append 2 more: the buffer is a FIFO — never a byte lost, duplicated or moved
#[kani::proof]
#[kani::unwind(10)]
pub fn buffer_advance_compact_fifo() {
    let p: [u8; 3] = kani::any();
    let q: [u8; 2] = kani::any();
    let mut b = Buffer::with_capacity(8);
    push(&mut b, &p);
    assert!(b.buffer().len() == 3);
    let k = any_le(3);
    let done = b.advance(k);
    assert!(done == (k == 3));
    {
        let rest = b.buffer();
        assert!(rest.len() == 3 - k);
        let mut i = 0; while i < rest.len() { assert!(rest[i] == p[k + i]); i += 1; }
    }
    b.compact_to(8, 16);
    {
        let rest = b.buffer();
        assert!(rest.len() == 3 - k, "compact_to changed the amount of pending data");
        let mut i = 0; while i < rest.len() { assert!(rest[i] == p[k + i], "compact_to moved the wrong bytes"); i += 1; }
    }
    push(&mut b, &q);
    let all = b.buffer();
    assert!(all.len() == 5 - k);
    let mut i = 0; while i < 3 - k { assert!(all[i] == p[k + i]); i += 1; }
    assert!(all[3 - k] == q[0] && all[4 - k] == q[1]);
}

/// flush_to against a writer that takes 1 byte and then fails: exactly the unsent tail stays pending; retry sends it
#[kani::proof]
#[kani::unwind(10)]
pub fn buffer_flush_error_keeps_rest() {
    let p: [u8; 3] = kani::any();
    let mut b = Buffer::with_capacity(4);
    push(&mut b, &p);
    let mut w = ChunkWriter::new([1, ERR]);
    let r = run(b.flush_to(&mut w));
    assert!(kind_of(&r) == Some(ErrorKind::PermissionDenied)); std::mem::forget(r);
    assert!(w.len == 1 && w.sink[0] == p[0]);
    { let rest = b.buffer(); assert!(rest.len() == 2 && rest[0] == p[1] && rest[1] == p[2], "failed flush lost or duplicated bytes"); }
    let r = run(b.flush_to(&mut w));
    assert!(forget_err(r) == Some(2));
    assert!(w.len == 3 && w.sink[1] == p[1] && w.sink[2] == p[2]);
    assert!(b.buffer().is_empty() && b.is_empty());
}
