//! c13-lenfield: LengthDelimited length-field encode/decode on the real framer.
use compio_buf::*;
use compio_io::framed::frame::{Frame, Framer, LengthDelimited};
use crate::util::*;

/// the only way to set the width establishes `lfl <= 8` (precondition `fwf()` of the Verus unit c13-frame)
#[kani::proof]
pub fn set_lfl_establishes_fwf() {
    let n: usize = kani::any();
    kani::assume(n <= 8);
    let f = LengthDelimited::new().set_length_field_len(n);
    assert!(f.length_field_len() == n);
    assert!(LengthDelimited::new().length_field_len() <= 8);
}
#[kani::proof]
#[kani::should_panic]
pub fn set_lfl_rejects_wide() {
    let n: usize = kani::any();
    kani::assume(n > 8);
    let _ = LengthDelimited::new().set_length_field_len(n);
}

/// reference decoding of an `lfl`-byte length field
fn ref_decode(h: &[u8; 8], lfl: usize, be: bool) -> u64 {
    let mut v: u64 = 0;
    let mut i = 0;
    while i < lfl {
        let b = if be { h[i] } else { h[lfl - 1 - i] } as u64;
        v = (v << 8) | b;
        i += 1;
    }
    v
}

/// hostile input: ALL header bytes (8 symbolic bytes), all widths 0..=8, both byte orders, buffered length 0..=12:
/// extract never panics, decodes exactly the reference length, answers "frame" iff header+payload are buffered,
/// "need more" iff not, and an error only when header+length cannot be represented
#[kani::proof]
#[kani::unwind(14)]
pub fn extract_hostile_header() {
    let lfl = any_le(8);
    let be: bool = kani::any();
    let h: [u8; 8] = kani::any();
    let n = any_le(12);
    let mut framer = LengthDelimited::new().set_length_field_len(lfl).set_length_field_is_big_endian(be);
    let mut v: Vec<u8> = Vec::with_capacity(12);
    let mut i = 0;
    while i < n { v.push(if i < 8 { h[i] } else { 0x5a }); i += 1; }
    let s = v.slice(..);
    let r = <LengthDelimited as Framer<Vec<u8>>>::extract(&mut framer, &s);
    let want = ref_decode(&h, lfl, be);
    match r {
        Ok(Some(f)) => {
            assert!(n >= lfl);
            assert!(f == Frame::new(lfl, want as usize, 0));
            assert!(lfl as u64 + want <= n as u64, "reported frame fits the buffered bytes");
            assert!(f.len() <= n);
        }
        Ok(None) => assert!(n < lfl || (n as u128) < lfl as u128 + want as u128, "need-more only when incomplete"),
        Err(e) => {
            assert!(n >= lfl && (lfl as u128 + want as u128 > usize::MAX as u128), "error only on unrepresentable length");
            std::mem::forget(e);
        }
    }
}

macro_rules! roundtrip {
    ($name:ident, $lfl:expr, $be:expr, $plen:expr) => {
        /// enclose then extract gives back the payload; shape (width, byte order, payload length) concrete, bytes symbolic
        #[kani::proof]
        #[kani::unwind(14)]
        pub fn $name() {
            const PLEN: usize = $plen;
            let p: [u8; PLEN] = kani::any();
            let mut framer = LengthDelimited::new().set_length_field_len($lfl).set_length_field_is_big_endian($be);
            let mut buf: Vec<u8> = Vec::with_capacity(16);
            let mut i = 0;
            while i < PLEN { buf.push(p[i]); i += 1; }
            <LengthDelimited as Framer<Vec<u8>>>::enclose(&mut framer, &mut buf);
            assert!(buf.len() == PLEN + $lfl);
            // first byte of a following frame must not disturb the decision
            buf.push(kani::any());
            let s = buf.slice(..);
            match <LengthDelimited as Framer<Vec<u8>>>::extract(&mut framer, &s) {
                Ok(Some(f)) => {
                    assert!(f == Frame::new($lfl, PLEN, 0));
                    let payload = f.slice(s.into_inner());
                    let got = payload.as_init();
                    assert!(got.len() == PLEN);
                    let mut i = 0;
                    while i < PLEN { assert!(got[i] == p[i]); i += 1; }
                }
                Ok(None) => assert!(false, "complete frame not recognised"),
                Err(e) => { std::mem::forget(e); assert!(false, "complete frame rejected"); }
            }
        }
    };
}
roundtrip!(roundtrip_1_be_2, 1, true, 2);
roundtrip!(roundtrip_1_le_0, 1, false, 0);
roundtrip!(roundtrip_2_be_3, 2, true, 3);
roundtrip!(roundtrip_2_le_1, 2, false, 1);
roundtrip!(roundtrip_4_be_2, 4, true, 2);
roundtrip!(roundtrip_4_le_3, 4, false, 3);
roundtrip!(roundtrip_8_be_1, 8, true, 1);
roundtrip!(roundtrip_8_le_2, 8, false, 2);

/// F7: a payload of 256 bytes does not fit a 1-byte length field; enclose has no way to say so
#[kani::proof]
#[kani::unwind(260)]
pub fn enclose_payload_exceeds_field() {
    let mut framer = LengthDelimited::new().set_length_field_len(1);
    let mut buf: Vec<u8> = vec![7u8; 256];
    <LengthDelimited as Framer<Vec<u8>>>::enclose(&mut framer, &mut buf);
    let s = buf.slice(..);
    match <LengthDelimited as Framer<Vec<u8>>>::extract(&mut framer, &s) {
        Ok(Some(f)) => assert!(f == Frame::new(1, 256, 0), "LengthDelimited::enclose: payload length representable in the length field"),
        Ok(None) => assert!(false),
        Err(e) => { std::mem::forget(e); }
    }
}

/// the LARGEST representable payload (255 bytes for a 1-byte field) is enclosed and extracted correctly (seeded C13-1)
#[kani::proof]
#[kani::unwind(260)]
pub fn enclose_largest_representable_payload() {
    let mut framer = LengthDelimited::new().set_length_field_len(1);
    let mut buf: Vec<u8> = vec![7u8; 255];
    <LengthDelimited as Framer<Vec<u8>>>::enclose(&mut framer, &mut buf);
    assert!(buf.len() == 256 && buf[0] == 255);
    let s = buf.slice(..);
    match <LengthDelimited as Framer<Vec<u8>>>::extract(&mut framer, &s) {
        Ok(Some(f)) => assert!(f == Frame::new(1, 255, 0)),
        Ok(None) => assert!(false),
        Err(e) => { std::mem::forget(e); assert!(false); }
    }
}

/// A-conv (units/c13-frame): the three facts about std's u64 byte conversions that the Verus round-trip lemma
/// `lemma_header_roundtrip` assumes — for EVERY u64 and every field width 0..=8 (complete: full-domain symbolic inputs,
/// the only loops run over the 8 byte positions)
#[kani::proof]
#[kani::unwind(10)]
pub fn conv_axioms() {
    let x: u64 = kani::any();
    let lfl: usize = kani::any();
    kani::assume(lfl <= 8);
    assert!(u64::from_be_bytes(x.to_be_bytes()) == x);
    assert!(u64::from_le_bytes(x.to_le_bytes()) == x);
    let fits = lfl >= 8 || (x as u128) < (1u128 << (8 * lfl as u32));
    if fits {
        let be = x.to_be_bytes();
        let le = x.to_le_bytes();
        let mut i = 0;
        while i < 8 {
            if i < 8 - lfl { assert!(be[i] == 0, "a value that fits the field has zero high bytes (big endian)"); }
            if i >= lfl { assert!(le[i] == 0, "a value that fits the field has zero high bytes (little endian)"); }
            i += 1;
        }
    }
}
