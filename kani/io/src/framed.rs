//! c13-framed (bounded): the real Framed read state machine (framed/read.rs) over a scheduled in-memory reader.
//! Codec: a pass-through decoder written here (environment); framer: the real LengthDelimited (width 1).
use compio_buf::*;
use compio_io::framed::{Framed, codec::Decoder, frame::LengthDelimited};
use compio_io::*;
use futures_util::StreamExt;
use crate::doubles::*;

/// decoder double: the payload's first byte and its length (enough to tell frames apart and see truncation)
pub struct Head;
impl Decoder<(u8, usize), Vec<u8>> for Head {
    type Error = std::io::Error;
    fn decode(&mut self, buf: &Slice<Vec<u8>>) -> Result<(u8, usize), Self::Error> {
        let b = buf.as_init();
        Ok((if b.is_empty() { 0 } else { b[0] }, b.len()))
    }
}

fn next<S: futures_util::Stream + Unpin>(s: &mut S) -> Option<S::Item> { run(s.next()) }

macro_rules! framed_h {
    ($name:ident, steps $steps:expr) => {
        /// three frames [1,a] [2,b,c] [1,d] delivered in the given fragmentation: decoded items are the same three
        /// frames, in order, then end of stream after EOF (nothing merged, split or dropped)
        #[kani::proof]
        #[kani::unwind(12)]
        pub fn $name() {
            let (a, b, c, d): (u8, u8, u8, u8) = (kani::any(), kani::any(), kani::any(), kani::any());
            let mut data = [0u8; N];
            data[0] = 1; data[1] = a; data[2] = 2; data[3] = b; data[4] = c; data[5] = 1; data[6] = d;
            let r = ChunkReader::new(data, 7, $steps);
            let framer = LengthDelimited::new().set_length_field_len(1);
            let mut f = Framed::new::<(), (u8, usize)>(Head, framer).with_reader(r);
            match next(&mut f) { Some(Ok(x)) => assert!(x == (a, 1)), _ => assert!(false, "first frame") }
            match next(&mut f) { Some(Ok(x)) => assert!(x == (b, 2)), _ => assert!(false, "second frame") }
            match next(&mut f) { Some(Ok(x)) => assert!(x == (d, 1)), _ => assert!(false, "third frame") }
            assert!(next(&mut f).is_none(), "stream must end after EOF");
        }
    };
}
framed_h!(framed_three_frames_one_chunk, steps [0]);
framed_h!(framed_split_in_header, steps [2, 1, 0]);
framed_h!(framed_two_and_a_half, steps [6, 0]);
