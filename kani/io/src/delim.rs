//! c13-delim (bounded): AnyDelimited / CharDelimited on the real framers. Delimiter length 1..=2, buffer <= 5.
use compio_buf::*;
use compio_io::framed::frame::{AnyDelimited, CharDelimited, Frame, Framer};
use crate::util::*;

/// extract returns the FIRST occurrence of the delimiter, or None if there is none; never panics
/// (precondition: delimiter non-empty — `windows(0)` panics; a configuration error, not hostile input)
#[kani::proof]
#[kani::unwind(8)]
pub fn any_delimited_first_occurrence() {
    let d: [u8; 2] = kani::any();
    let dl = 1 + any_le(1);
    let n = any_le(5);
    let bytes: [u8; 5] = kani::any();
    let buf = vec_with(8, &bytes[..n]);
    let s = buf.slice(..);
    let mut fr = AnyDelimited::new(&d[..dl]);
    let r = <AnyDelimited as Framer<Vec<u8>>>::extract(&mut fr, &s);
    // reference: first position where the delimiter matches
    let mut first: Option<usize> = None;
    let mut i = 0;
    while i + dl <= n {
        let m = bytes[i] == d[0] && (dl == 1 || bytes[i + 1] == d[1]);
        if m && first.is_none() { first = Some(i); }
        i += 1;
    }
    match r {
        Ok(Some(f)) => { assert!(first == Some(f.len() - dl)); assert!(f == Frame::new(0, first.unwrap(), dl)); assert!(f.len() <= n); }
        Ok(None) => assert!(first.is_none()),
        Err(e) => { std::mem::forget(e); assert!(false); }
    }
}

/// enclose appends the delimiter; extract∘enclose is the identity on payloads not containing it
#[kani::proof]
#[kani::unwind(8)]
pub fn any_delimited_roundtrip() {
    let d: [u8; 2] = kani::any();
    let dl = 1 + any_le(1);
    let n = any_le(3);
    let p: [u8; 3] = kani::any();
    // payload does not contain the delimiter (also not straddling the appended one)
    let mut i = 0;
    while i < n { kani::assume(p[i] != d[0]); i += 1; }
    let mut buf = vec_with(8, &p[..n]);
    let mut fr = AnyDelimited::new(&d[..dl]);
    <AnyDelimited as Framer<Vec<u8>>>::enclose(&mut fr, &mut buf);
    assert!(buf.len() == n + dl);
    let s = buf.slice(..);
    match <AnyDelimited as Framer<Vec<u8>>>::extract(&mut fr, &s) {
        Ok(Some(f)) => {
            assert!(f == Frame::new(0, n, dl));
            let payload = f.slice(s.into_inner());
            let got = payload.as_init();
            let mut i = 0;
            while i < n { assert!(got[i] == p[i]); i += 1; }
        }
        _ => assert!(false),
    }
}

#[kani::proof]
#[kani::unwind(8)]
pub fn line_delimited_roundtrip() {
    let n = any_le(3);
    let p: [u8; 3] = kani::any();
    let mut i = 0;
    while i < n { kani::assume(p[i] != b'\n'); i += 1; }
    let mut buf = vec_with(8, &p[..n]);
    let mut fr = CharDelimited::<'\n'>::new();
    <CharDelimited<'\n'> as Framer<Vec<u8>>>::enclose(&mut fr, &mut buf);
    assert!(buf.len() == n + 1 && buf[n] == b'\n');
    let s = buf.slice(..);
    match <CharDelimited<'\n'> as Framer<Vec<u8>>>::extract(&mut fr, &s) {
        Ok(Some(f)) => assert!(f == Frame::new(0, n, 1)),
        _ => assert!(false),
    }
}
