//! C12 read side (bounded): like c12.rs, but `alloc::fmt::format` (only used for the text of the OutOfMemory error of
//! fill_read_buf) is stubbed to return an empty String — the error KIND is unchanged. No glob imports here: Kani's stub
//! resolution fails on `std`/`alloc` paths in modules with several glob imports.
use compio_buf::BufResult;
use compio_io::compat::SyncStream;
use std::io::{BufRead, ErrorKind, Read};
use crate::c12::Duplex;
use crate::doubles::{ChunkReader, ChunkWriter, INT, N, forget_err, kind_of, run};

pub fn stub_format(_args: std::fmt::Arguments<'_>) -> String { String::new() }

fn duplex<const KR: usize, const KW: usize>(data: [u8; N], len: usize, rs: [i8; KR], ws: [i8; KW]) -> Duplex<KR, KW> {
    Duplex { r: ChunkReader::new(data, len, rs), w: ChunkWriter::new(ws) }
}

/// into_parts hands back exactly the unread remainder
#[kani::proof]
#[kani::unwind(12)]
#[kani::stub(alloc::fmt::format, stub_format)]
pub fn read_into_parts_remainder() {
    let data: [u8; N] = kani::any();
    let mut s = SyncStream::with_limits(4, 8, duplex(data, 3, [0], [0]));
    assert!(forget_err(run(s.fill_read_buf())) == Some(3));
    let mut one = [0u8; 1];
    assert!(forget_err(s.read(&mut one)) == Some(1) && one[0] == data[0]);
    let (inner, rest) = s.into_parts();
    assert!(rest.len() == 2 && rest[0] == data[1] && rest[1] == data[2] && inner.r.pos == 3);
}
