//! c11-async (bounded): the REAL async helpers, polled once, against the doubles; one harness per concrete shape
//! (schedule, capacities), payload bytes symbolic.
use compio_buf::*;
use compio_io::*;
use std::io::ErrorKind;
use crate::doubles::*;
use crate::util::*;

fn vec_cap(cap: usize, init: &[u8]) -> Vec<u8> {
    let mut v = Vec::with_capacity(cap);
    kani::assume(v.capacity() == cap);
    let mut i = 0; while i < init.len() { v.push(init[i]); i += 1; }
    v
}

// ------------------------------------------------------------------ read_exact
macro_rules! read_exact_h {
    ($name:ident, cap $cap:expr, data $dlen:expr, steps $steps:expr, want $want:expr) => {
        #[kani::proof]
        #[kani::unwind(10)]
        pub fn $name() {
            let data: [u8; N] = kani::any();
            let mut r = ChunkReader::new(data, $dlen, $steps);
            let buf = vec_cap($cap, &[]);
            let BufResult(res, buf) = run(r.read_exact(buf));
            let want: Option<ErrorKind> = $want;
            assert!(kind_of(&res) == want);
            // none lost, duplicated, reordered, misplaced: what left the reader is exactly the buffer's prefix
            assert!(buf.len() == r.pos && r.pos <= $cap);
            let mut i = 0; while i < buf.len() { assert!(buf[i] == data[i]); i += 1; }
            if want.is_none() { assert!(r.pos == $cap); }
            std::mem::forget(res);
        }
    };
}
read_exact_h!(read_exact_111, cap 3, data 5, steps [1, 1, 1], want None);
read_exact_h!(read_exact_21, cap 3, data 5, steps [2, 1], want None);
read_exact_h!(read_exact_3, cap 3, data 3, steps [3], want None);
read_exact_h!(read_exact_i1i2, cap 3, data 4, steps [INT, 1, INT, 2], want None);
read_exact_h!(read_exact_eof, cap 3, data 2, steps [1, 1], want Some(ErrorKind::UnexpectedEof));
read_exact_h!(read_exact_eof0, cap 2, data 0, steps [0], want Some(ErrorKind::UnexpectedEof));
read_exact_h!(read_exact_err, cap 3, data 5, steps [1, ERR], want Some(ErrorKind::PermissionDenied));
read_exact_h!(read_exact_cap0, cap 0, data 3, steps [1], want None);
read_exact_h!(read_exact_cap1, cap 1, data 3, steps [INT, INT, 2], want None);

/// read_exact into an uninit() tail view with 1-byte chunks (F1): the pre-existing prefix survives
#[kani::proof]
#[kani::unwind(10)]
pub fn read_exact_uninit_tail() {
    let data: [u8; N] = kani::any();
    let mut r = ChunkReader::new(data, 5, [1, 1, INT, 1]);
    let buf = vec_cap(5, &[0xAA, 0xBB]);
    let BufResult(res, view) = run(r.read_exact(buf.uninit()));
    assert!(kind_of(&res).is_none());
    let buf = view.into_inner();
    assert!(buf.len() == 5 && buf[0] == 0xAA && buf[1] == 0xBB);
    assert!(buf[2] == data[0] && buf[3] == data[1] && buf[4] == data[2] && r.pos == 3);
    std::mem::forget(res);
}

// ------------------------------------------------------------------ read_to_end (appends; F3)
macro_rules! read_to_end_h {
    ($name:ident, init $init:expr, data $dlen:expr, steps $steps:expr, want $want:expr) => {
        #[kani::proof]
        #[kani::unwind(8)]
        pub fn $name() {
            let data: [u8; N] = kani::any();
            let mut r = ChunkReader::new(data, $dlen, $steps);
            let init: [u8; $init] = kani::any();
            // capacity 8 > init + data: the reserve(32) branch (reallocation) is not exercised by this shape
            let buf = vec_cap(8, &init);
            let BufResult(res, buf) = run(r.read_to_end(buf));
            let want: Option<ErrorKind> = $want;
            assert!(kind_of(&res) == want);
            assert!(buf.len() == $init + r.pos);
            let mut i = 0; while i < $init { assert!(buf[i] == init[i]); i += 1; }
            let mut i = 0; while i < r.pos { assert!(buf[$init + i] == data[i]); i += 1; }
            if let Ok(n) = &res { assert!(*n == $dlen && r.pos == $dlen); }
            std::mem::forget(res);
        }
    };
}
read_to_end_h!(read_to_end_empty_21, init 0, data 3, steps [2, 1], want None);
read_to_end_h!(read_to_end_keep_prefix, init 2, data 3, steps [1, INT, 2], want None);
read_to_end_h!(read_to_end_err, init 1, data 3, steps [2, ERR], want Some(ErrorKind::PermissionDenied));

// ------------------------------------------------------------------ write_all
macro_rules! write_all_h {
    ($name:ident, len $len:expr, steps $steps:expr, want $want:expr) => {
        #[kani::proof]
        #[kani::unwind(10)]
        pub fn $name() {
            let data: [u8; $len] = kani::any();
            let mut w = ChunkWriter::new($steps);
            let buf = vec_cap($len, &data);
            let BufResult(res, buf) = run(w.write_all(buf));
            let want: Option<ErrorKind> = $want;
            assert!(kind_of(&res) == want);
            // the sink holds a prefix of the payload, in order, nothing twice; all of it on success
            assert!(w.len <= $len);
            let mut i = 0; while i < w.len { assert!(w.sink[i] == data[i]); i += 1; }
            if want.is_none() { assert!(w.len == $len); }
            // the buffer comes back unchanged
            assert!(buf.len() == $len);
            let mut i = 0; while i < $len { assert!(buf[i] == data[i]); i += 1; }
            std::mem::forget(res);
        }
    };
}
write_all_h!(write_all_111, len 3, steps [1, 1, 1], want None);
write_all_h!(write_all_i2i1, len 3, steps [INT, 2, INT, 1], want None);
write_all_h!(write_all_zero, len 3, steps [1, ZERO], want Some(ErrorKind::WriteZero));
write_all_h!(write_all_err, len 3, steps [2, ERR], want Some(ErrorKind::PermissionDenied));
write_all_h!(write_all_empty, len 0, steps [ZERO], want None);

// ------------------------------------------------------------------ in-memory readers / writers (macro-generated impls)
/// &[u8] as AsyncRead: sequential, consumes what it delivers
#[kani::proof]
#[kani::unwind(8)]
pub fn slice_read_sequential() {
    let data: [u8; 4] = kani::any();
    let mut s: &[u8] = &data;
    let BufResult(r1, b1) = run(s.read(vec_cap(3, &[])));
    assert!(forget_err(r1) == Some(3) && b1.len() == 3 && b1[0] == data[0] && b1[2] == data[2] && s.len() == 1);
    let BufResult(r2, b2) = run(s.read(vec_cap(3, &[])));
    assert!(forget_err(r2) == Some(1) && b2.len() == 1 && b2[0] == data[3] && s.is_empty());
    let BufResult(r3, b3) = run(s.read(vec_cap(3, &[])));
    assert!(forget_err(r3) == Some(0) && b3.is_empty());
}

/// [u8]::read_at for every position 0..=6 (also beyond the end) and capacity 0..=3
#[kani::proof]
#[kani::unwind(8)]
pub fn slice_read_at_all_positions() {
    let data: [u8; 4] = kani::any();
    let pos: u64 = kani::any(); kani::assume(pos <= 6);
    let cap = any_le(3);
    let BufResult(r, b) = run(data[..].read_at(Vec::with_capacity(cap), pos));
    let n = match forget_err(r) { Some(n) => n, None => { assert!(false); 0 } };
    let start = if pos > 4 { 4 } else { pos as usize };
    assert!(n <= cap && n <= 4 - start && (n == cap || n == 4 - start) || b.capacity() > cap);
    assert!(b.len() == n);
    let mut i = 0; while i < n { assert!(b[i] == data[start + i]); i += 1; }
}

/// [u8]::read_vectored_at for every position incl. beyond the end (F5)
#[kani::proof]
#[kani::unwind(8)]
pub fn slice_read_vectored_at_all_positions() {
    let data: [u8; 4] = kani::any();
    let pos: u64 = kani::any(); kani::assume(pos <= 6);
    let bufs = [vec_cap(1, &[]), vec_cap(2, &[])];
    let BufResult(r, b) = run(data[..].read_vectored_at(bufs, pos));
    let n = match forget_err(r) { Some(n) => n, None => { assert!(false); 0 } };
    let start = if pos > 4 { 4 } else { pos as usize };
    let want = if 4 - start > 3 { 3 } else { 4 - start };
    assert!(n == want);
    assert!(b[0].len() + b[1].len() == n && b[0].len() == if n > 1 { 1 } else { n });
    let mut i = 0;
    while i < n { let x = if i < 1 { b[0][i] } else { b[1][i - 1] }; assert!(x == data[start + i]); i += 1; }
}

/// Vec<u8>::write_vectored appends all members, whatever the vector already holds (F4)
#[kani::proof]
#[kani::unwind(8)]
pub fn vec_write_vectored_appends() {
    let init: [u8; 4] = kani::any();
    let a: [u8; 1] = kani::any();
    let b: [u8; 2] = kani::any();
    let mut v = vec_cap(8, &init);
    let BufResult(r, _) = run(v.write_vectored([vec_cap(1, &a), vec_cap(2, &b)]));
    assert!(forget_err(r) == Some(3));
    assert!(v.len() == 7 && v[0] == init[0] && v[3] == init[3] && v[4] == a[0] && v[5] == b[0] && v[6] == b[1]);
}

/// Vec<u8>::write_vectored_at for positions inside, at and beyond the end (F4)
#[kani::proof]
#[kani::unwind(10)]
pub fn vec_write_vectored_at_positions() {
    let init: [u8; 3] = kani::any();
    let a: [u8; 1] = kani::any();
    let b: [u8; 1] = kani::any();
    let pos: u64 = kani::any(); kani::assume(pos <= 4);
    let mut v = vec_cap(8, &init);
    let BufResult(r, _) = run(v.write_vectored_at([vec_cap(1, &a), vec_cap(1, &b)], pos));
    assert!(forget_err(r) == Some(2));
    let p = pos as usize;
    let end = if p + 2 > 3 { p + 2 } else { 3 };
    assert!(v.len() == end);
    let mut i = 0;
    while i < end {
        let want = if i == p { a[0] } else if i == p + 1 { b[0] } else if i < 3 { init[i] } else { 0 };
        assert!(v[i] == want);
        i += 1;
    }
}

/// Vec<u8>::write_at (scalar twin)
#[kani::proof]
#[kani::unwind(10)]
pub fn vec_write_at_positions() {
    let init: [u8; 3] = kani::any();
    let a: [u8; 2] = kani::any();
    let pos: u64 = kani::any(); kani::assume(pos <= 4);
    let mut v = vec_cap(8, &init);
    let BufResult(r, _) = run(v.write_at(vec_cap(2, &a), pos));
    assert!(forget_err(r) == Some(2));
    let p = pos as usize;
    let end = if p + 2 > 3 { p + 2 } else { 3 };
    assert!(v.len() == end);
    let mut i = 0;
    while i < end {
        let want = if i == p { a[0] } else if i == p + 1 { a[1] } else if i < 3 { init[i] } else { 0 };
        assert!(v[i] == want);
        i += 1;
    }
}

/// [u8]::write_at clamps at the end, never panics
#[kani::proof]
#[kani::unwind(10)]
pub fn slice_write_at_positions() {
    let mut dst: [u8; 3] = kani::any();
    let old = dst;
    let a: [u8; 2] = kani::any();
    let pos: u64 = kani::any(); kani::assume(pos <= 5);
    let BufResult(r, _) = run(dst[..].write_at(vec_cap(2, &a), pos));
    let n = match forget_err(r) { Some(n) => n, None => { assert!(false); 0 } };
    let p = if pos > 3 { 3 } else { pos as usize };
    assert!(n == if 3 - p > 2 { 2 } else { 3 - p });
    let mut i = 0;
    while i < 3 { let want = if i >= p && i < p + n { a[i - p] } else { old[i] }; assert!(dst[i] == want); i += 1; }
}

// ------------------------------------------------------------------ vectored helpers (VectoredBufIter based)
/// read_vectored (default impl via loop_read_vectored): fills the first member with spare capacity
#[kani::proof]
#[kani::unwind(10)]
pub fn read_vectored_default_first_nonfull() {
    let data: [u8; N] = kani::any();
    let mut r = ChunkReader::new(data, 4, [0]);
    let bufs = [vec_cap(0, &[]), vec_cap(2, &[])];
    let BufResult(res, bufs) = run(r.read_vectored(bufs));
    let n = match forget_err(res) { Some(n) => n, None => { assert!(false); 0 } };
    assert!(n == 2 && r.pos == 2 && bufs[0].is_empty() && bufs[1].len() == 2 && bufs[1][0] == data[0] && bufs[1][1] == data[1]);
}

/// read_vectored_exact over two members with short reads: dense fill, nothing lost
#[kani::proof]
#[kani::unwind(10)]
pub fn read_vectored_exact_two_members() {
    let data: [u8; N] = kani::any();
    let mut r = ChunkReader::new(data, 5, [1, INT, 1, 1]);
    let bufs = [vec_cap(1, &[]), vec_cap(2, &[])];
    let BufResult(res, bufs) = run(r.read_vectored_exact(bufs));
    assert!(kind_of(&res).is_none());
    assert!(r.pos == 3 && bufs[0].len() == 1 && bufs[1].len() == 2);
    assert!(bufs[0][0] == data[0] && bufs[1][0] == data[1] && bufs[1][1] == data[2]);
    std::mem::forget(res);
}

/// write_vectored_all with short writes: the concatenation reaches the sink in order
#[kani::proof]
#[kani::unwind(10)]
pub fn write_vectored_all_two_members() {
    let a: [u8; 1] = kani::any();
    let b: [u8; 2] = kani::any();
    let mut w = ChunkWriter::new([1, INT, 1, 1]);
    let BufResult(res, _) = run(w.write_vectored_all([vec_cap(1, &a), vec_cap(2, &b)]));
    assert!(kind_of(&res).is_none());
    assert!(w.len == 3 && w.sink[0] == a[0] && w.sink[1] == b[0] && w.sink[2] == b[1]);
    std::mem::forget(res);
}

// ------------------------------------------------------------------ Take
#[kani::proof]
#[kani::unwind(10)]
pub fn take_limits_and_keeps_order() {
    let data: [u8; N] = kani::any();
    let r = ChunkReader::new(data, 5, [2, INT, 0]);
    let mut t = r.take(3);
    let BufResult(r1, b1) = run(t.read(vec_cap(4, &[])));
    assert!(forget_err(r1) == Some(2) && b1.len() == 2 && b1[0] == data[0] && b1[1] == data[1] && t.limit() == 1);
    let BufResult(r2, b2) = run(t.read(vec_cap(4, &[])));
    assert!(kind_of(&r2) == Some(ErrorKind::Interrupted) && b2.is_empty() && t.limit() == 1);
    std::mem::forget(r2);
    let BufResult(r3, b3) = run(t.read(vec_cap(4, &[])));
    assert!(forget_err(r3) == Some(1) && b3.len() == 1 && b3[0] == data[2] && t.limit() == 0);
    let BufResult(r4, b4) = run(t.read(vec_cap(4, &[])));
    assert!(forget_err(r4) == Some(0) && b4.is_empty());
    assert!(t.get_ref().pos == 3);
}

#[kani::proof]
#[kani::unwind(10)]
pub fn probe_read_exact_array() {
    let data: [u8; N] = kani::any();
    let mut r = ChunkReader::new(data, 3, [3]);
    let buf = [0u8; 3];
    let BufResult(res, buf) = run(r.read_exact(buf));
    assert!(kind_of(&res).is_none());
    assert!(buf[0] == data[0] && buf[2] == data[2]);
    std::mem::forget(res);
}
#[kani::proof]
#[kani::unwind(10)]
pub fn probe_read_once_vec() {
    let data: [u8; N] = kani::any();
    let mut r = ChunkReader::new(data, 3, [3]);
    let buf = vec_cap(3, &[]);
    let BufResult(res, buf) = run(r.read(buf.slice(0..)));
    let buf = buf.into_inner();
    assert!(buf.len() == 3 && buf[0] == data[0] && buf[2] == data[2]);
    std::mem::forget(res);
}

// ------------------------------------------------------------------ copy
/// copy_with_size over a reader that delivers a short chunk first: everything up to EOF reaches the sink in order,
/// exactly once (seeded change C11-7: a short read is not EOF)
#[kani::proof]
#[kani::unwind(6)]
pub fn copy_short_reads_and_writes() {
    let data: [u8; N] = kani::any();
    let mut r = ChunkReader::new(data, 3, [1, 0]);
    let mut w = ChunkWriter::new([0]);
    let res = run(compio_io::util::copy_with_size(&mut r, &mut w, 4));
    assert!(forget_err(res) == Some(3));
    assert!(r.pos == 3 && w.len == 3);
    assert!(w.sink[0] == data[0] && w.sink[1] == data[1] && w.sink[2] == data[2]);
    assert!(w.flushed == 1);
}

// ------------------------------------------------------------------ BufWriter under a transient error (F15)
/// write_all through a BufWriter whose inner writer answers Interrupted once, exactly when the BufWriter flushes right
/// after it has buffered the payload: the payload must reach the sink exactly once (write_all retries on Interrupted —
/// an error reported for bytes that were already taken makes it queue them twice)
#[kani::proof]
#[kani::unwind(10)]
pub fn bufwriter_write_all_interrupted_flush() {
    let data: [u8; 3] = kani::any();
    let w = ChunkWriter::new([INT]);
    let mut bw = BufWriter::with_capacity(4, w);
    let buf = vec_cap(3, &data);
    let BufResult(res, _buf) = run(bw.write_all(buf));
    assert!(kind_of(&res).is_none(), "write_all over a BufWriter failed although the only error was transient");
    std::mem::forget(res);
    let r = run(bw.flush());
    assert!(kind_of(&r).is_none()); std::mem::forget(r);
    let w = bw.into_inner();
    assert!(w.len == 3, "BufWriter + write_all: payload lost or duplicated after an interrupted flush");
    let mut i = 0; while i < 3 { assert!(w.sink[i] == data[i]); i += 1; }
}

/// `&mut [u8]` as a vectored writer (the in-memory writer of the property): the count reported is exactly the number of
/// bytes stored, also when the destination becomes full inside a member (seeded change C11-r6-3: the member that fills the
/// slice is stored but not counted), and the bytes are the concatenation's prefix
#[kani::proof]
#[kani::unwind(8)]
pub fn mut_slice_write_vectored_counts() {
    let a: [u8; 2] = kani::any();
    let b: [u8; 2] = kani::any();
    let room = any_le(4);
    let mut backing = [0u8; 4];
    let mut dst: &mut [u8] = &mut backing[..room];
    let BufResult(r, _) = run(dst.write_vectored([vec_cap(2, &a), vec_cap(2, &b)]));
    let left = dst.len();
    assert!(forget_err(r) == Some(room), "write_vectored into a slice must report exactly what it stored");
    assert!(left == 0);
    let src = [a[0], a[1], b[0], b[1]];
    let mut i = 0;
    while i < room { assert!(backing[i] == src[i]); i += 1; }
}

/// [u8]::read_vectored_at with a ZERO-CAPACITY member in front of one with room: an empty member is not the end of the data
/// (seeded change C11-r7-1: the member loop stopped on "this member took nothing")
#[kani::proof]
#[kani::unwind(8)]
pub fn slice_read_vectored_at_empty_member_first() {
    let data: [u8; 3] = kani::any();
    let bufs = [vec_cap(0, &[]), vec_cap(2, &[]), vec_cap(0, &[]), vec_cap(1, &[])];
    let BufResult(r, b) = run(data[..].read_vectored_at(bufs, 0));
    assert!(forget_err(r) == Some(3), "a zero-capacity member was taken for the end of the data");
    assert!(b[1].len() == 2 && b[1][0] == data[0] && b[1][1] == data[1] && b[3].len() == 1 && b[3][0] == data[2]);
}

/// BufWriter: scalar writes that leave the buffer exactly full, then a vectored write — the vectored write must make progress
/// on a healthy sink (seeded change C11-r7-4: the flush before it was dropped on both sides) and nothing is lost or doubled
#[kani::proof]
#[kani::unwind(10)]
pub fn bufwriter_full_then_write_vectored() {
    let a: [u8; 4] = kani::any();
    let b: [u8; 2] = kani::any();
    let mut sink: Vec<u8> = Vec::with_capacity(16);
    {
        let mut w = BufWriter::with_capacity(4, &mut sink);
        let BufResult(r, _) = run(w.write(vec_cap(4, &a)));
        assert!(forget_err(r) == Some(4));
        let BufResult(r, _) = run(w.write_vectored([vec_cap(2, &b)]));
        let n = match forget_err(r) { Some(n) => n, None => { assert!(false); 0 } };
        assert!(n > 0, "write_vectored answered Ok(0) on a healthy sink although there was data to write");
        let r = run(w.flush());
        assert!(forget_err(r).is_some());
        let _ = n;
    }
    assert!(sink.len() >= 5 && sink[0] == a[0] && sink[3] == a[3] && sink[4] == b[0]);
}
