//! Kani harnesses for C11 / C12 / C13 over the REAL compio-io crate (DESIGN §4).
//! Everything here is harness (environment / oracle); no code of compio is copied.
#![allow(unused, clippy::all)]
pub mod util;
#[cfg(kani)]
pub mod lenfield;
#[cfg(kani)]
pub mod delim;
#[cfg(kani)]
pub mod cmsg;
pub mod doubles;
#[cfg(kani)]
pub mod framed;
#[cfg(kani)]
pub mod c11;
#[cfg(kani)]
pub mod c12;
#[cfg(kani)]
pub mod c12r;
#[cfg(all(kani, compio_rs_compio_verif))]
pub mod c11buf;
/// concrete-playback tests are written here by `./check --replay` (committed empty)
#[cfg(kani)]
mod playback_gen;
