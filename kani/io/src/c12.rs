//! C12 (bounded, partial): SyncStream (blocking-style adapter) as a lossless FIFO pipe, through its public API,
//! over scheduled inner streams.  One harness per concrete shape; payload bytes symbolic.
use compio_buf::*;
use compio_io::compat::SyncStream;
use compio_io::*;
use std::io::{BufRead, ErrorKind, Read, Write};
use crate::doubles::*;

/// inner stream = scheduled reader + scheduled writer
pub struct Duplex<const KR: usize, const KW: usize> { pub r: ChunkReader<KR>, pub w: ChunkWriter<KW> }
impl<const KR: usize, const KW: usize> AsyncRead for Duplex<KR, KW> {
    async fn read<B: IoBufMut>(&mut self, buf: B) -> BufResult<usize, B> { self.r.read(buf).await }
}
impl<const KR: usize, const KW: usize> AsyncWrite for Duplex<KR, KW> {
    async fn write<T: IoBuf>(&mut self, buf: T) -> BufResult<usize, T> { self.w.write(buf).await }
    async fn flush(&mut self) -> std::io::Result<()> { self.w.flush().await }
    async fn shutdown(&mut self) -> std::io::Result<()> { self.w.shutdown().await }
}
fn duplex<const KR: usize, const KW: usize>(data: [u8; N], len: usize, rs: [i8; KR], ws: [i8; KW]) -> Duplex<KR, KW> {
    Duplex { r: ChunkReader::new(data, len, rs), w: ChunkWriter::new(ws) }
}

/// write 3 bytes, flush against a writer that takes 1 byte and then fails: the retry sends exactly the unsent tail
#[kani::proof]
#[kani::unwind(12)]
pub fn write_flush_error_then_retry() {
    let p: [u8; 3] = kani::any();
    let mut s = SyncStream::with_limits(4, 8, duplex([0; N], 0, [0], [1, ERR]));
    assert!(forget_err(s.write(&p)) == Some(3));
    assert!(s.has_pending_write());
    let r = run(s.flush_write_buf());
    assert!(kind_of(&r) == Some(ErrorKind::PermissionDenied));
    std::mem::forget(r);
    assert!(s.get_ref().w.len == 1 && s.get_ref().w.sink[0] == p[0]);
    assert!(s.has_pending_write(), "failed flush lost the unsent bytes");
    let r = run(s.flush_write_buf());
    assert!(forget_err(r) == Some(2));
    let w = &s.get_ref().w;
    assert!(w.len == 3 && w.sink[0] == p[0] && w.sink[1] == p[1] && w.sink[2] == p[2], "bytes reach the inner stream once, in order");
    assert!(!s.has_pending_write());
}

/// partial flushes (1 byte per call, an Interrupted in between surfaces to the caller, nothing is lost)
#[kani::proof]
#[kani::unwind(12)]
pub fn write_flush_short_writes() {
    let p: [u8; 3] = kani::any();
    let mut s = SyncStream::with_limits(4, 8, duplex([0; N], 0, [0], [1, 1, 1]));
    assert!(forget_err(s.write(&p)) == Some(3));
    let r = run(s.flush_write_buf());
    assert!(forget_err(r) == Some(3));
    let w = &s.get_ref().w;
    assert!(w.len == 3 && w.sink[0] == p[0] && w.sink[1] == p[1] && w.sink[2] == p[2]);
    assert!(w.flushed == 1);
}

/// the size limit is honoured and reported, never turned into data loss: with max 4, writes are accepted up to the
/// limit or answered WouldBlock; everything accepted comes out of the flush in order
#[kani::proof]
#[kani::unwind(12)]
pub fn write_limit_honoured() {
    let p: [u8; 3] = kani::any();
    let q: [u8; 3] = kani::any();
    let mut s = SyncStream::with_limits(2, 4, duplex([0; N], 0, [0], [0]));
    let a = match s.write(&p) { Ok(n) => n, Err(e) => { assert!(e.kind() == ErrorKind::WouldBlock); std::mem::forget(e); 0 } };
    let b = match s.write(&q) { Ok(n) => n, Err(e) => { assert!(e.kind() == ErrorKind::WouldBlock); std::mem::forget(e); 0 } };
    assert!(a <= 3 && b <= 3 && a + b <= 4, "buffer limit exceeded");
    let r = run(s.flush_write_buf());
    assert!(forget_err(r) == Some(a + b));
    let w = &s.get_ref().w;
    assert!(w.len == a + b);
    let mut i = 0; while i < a { assert!(w.sink[i] == p[i]); i += 1; }
    let mut i = 0; while i < b { assert!(w.sink[a + i] == q[i]); i += 1; }
}

/// read side: fills of 2 and 3 bytes, reads of 1, fill_buf/consume, would-block when drained, sticky EOF, in order
#[kani::proof]
#[kani::unwind(12)]
pub fn read_fifo_with_short_fills() {
    let data: [u8; N] = kani::any();
    let mut s = SyncStream::with_limits(4, 8, duplex(data, 5, [2, INT, 0], [0]));
    let mut one = [0u8; 1];
    // nothing buffered yet: would block, not EOF
    let r = s.read(&mut one);
    assert!(kind_of(&r) == Some(ErrorKind::WouldBlock)); std::mem::forget(r);
    assert!(forget_err(run(s.fill_read_buf())) == Some(2));
    assert!(forget_err(s.read(&mut one)) == Some(1) && one[0] == data[0]);
    match s.fill_buf() { Ok(b) => assert!(b.len() == 1 && b[0] == data[1]), Err(e) => { std::mem::forget(e); assert!(false) } }
    s.consume(1);
    // a transient error of the inner stream surfaces and loses nothing
    let r = run(s.fill_read_buf());
    assert!(kind_of(&r) == Some(ErrorKind::Interrupted)); std::mem::forget(r);
    assert!(forget_err(run(s.fill_read_buf())) == Some(3));
    let mut three = [0u8; 3];
    assert!(forget_err(s.read(&mut three)) == Some(3) && three[0] == data[2] && three[1] == data[3] && three[2] == data[4]);
    assert!(!s.is_eof());
    assert!(forget_err(run(s.fill_read_buf())) == Some(0));
    assert!(s.is_eof());
    assert!(forget_err(s.read(&mut one)) == Some(0), "EOF is sticky and reported as Ok(0)");
    assert!(forget_err(run(s.fill_read_buf())) == Some(0));
}

/// into_parts hands back exactly the unread remainder
#[kani::proof]
#[kani::unwind(12)]
pub fn read_into_parts_remainder() {
    let data: [u8; N] = kani::any();
    let mut s = SyncStream::with_limits(4, 8, duplex(data, 3, [0], [0]));
    assert!(forget_err(run(s.fill_read_buf())) == Some(3));
    let mut one = [0u8; 1];
    assert!(forget_err(s.read(&mut one)) == Some(1) && one[0] == data[0]);
    let (inner, rest) = s.into_parts();
    assert!(rest.len() == 2 && rest[0] == data[1] && rest[1] == data[2] && inner.r.pos == 3);
}
