// filled in below
