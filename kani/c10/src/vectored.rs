//! c10-vectored (bounded): the iterator-based vectored code that is outside the Verus subset
//! (`default_set_len`, `IoVectoredBuf::slice`, `IoVectoredBufMut::slice_mut`, `VectoredSlice`, tuple `set_len`,
//! `VectoredBufIter`).  Bounds: 2 members, capacities 2 and 3 (tuples: 2 and 2), all lengths, all begins.
use compio_buf::*;

const C0: usize = 2;
const C1: usize = 3;

fn mk(cap: usize, len: usize, tag: u8) -> Vec<u8> {
    let mut v = Vec::with_capacity(cap);
    kani::assume(v.capacity() == cap);
    let mut i = 0;
    while i < len { v.push(tag + i as u8); i += 1; }
    v
}
fn any_le(n: usize) -> usize { let x: usize = kani::any(); kani::assume(x <= n); x }

/// slice_mut(begin) + dense fill + set_len(n): the n bytes land at concatenation positions [begin, begin+n),
/// no member gets a length beyond its capacity
#[kani::proof]
#[kani::unwind(7)]
pub fn vectored_slice_mut_set_len() {
    let (l0, l1) = (any_le(C0), any_le(C1));
    let mut bufs = [mk(C0, l0, 10), mk(C1, l1, 20)];
    assert!(bufs.total_capacity() == C0 + C1);
    let begin = any_le(C0 + C1);
    let mut vs = bufs.slice_mut(begin);
    // writable region of the view == concatenation shifted by begin
    let mut total = 0usize;
    for s in vs.iter_uninit_slice() { total += s.len(); }
    assert!(total == C0 + C1 - begin);
    let n = any_le(total);
    let mut k = 0usize;
    for s in vs.iter_uninit_slice() {
        let mut j = 0;
        while j < s.len() && k < n { s[j].write(0xE0 + k as u8); j += 1; k += 1; }
    }
    unsafe { SetLen::set_len(&mut vs, n) };
    let bufs = vs.into_inner();
    assert!(bufs[0].len() <= C0 && bufs[1].len() <= C1);
    let mut p = begin;
    while p < begin + n {
        let b = if p < C0 { assert!(bufs[0].len() > p); bufs[0][p] } else { assert!(bufs[1].len() > p - C0); bufs[1][p - C0] };
        assert!(b == 0xE0 + (p - begin) as u8);
        p += 1;
    }
}

/// default_set_len on a plain array of buffers: dense assignment of min(len, total capacity)
#[kani::proof]
#[kani::unwind(7)]
pub fn default_set_len_dense() {
    let mut bufs = [mk(C0, 0, 10), mk(C1, 0, 20)];
    // make every byte defined so that growing the length is sound in the harness
    for b in bufs.iter_mut() { for c in b.spare_capacity_mut() { c.write(7); } }
    let n = any_le(C0 + C1 + 2);
    unsafe { SetLen::set_len(&mut bufs, n) };
    let want = if n > C0 + C1 { C0 + C1 } else { n };
    assert!(bufs[0].len() <= C0 && bufs[1].len() <= C1);
    assert!(bufs[0].len() + bufs[1].len() == want);
    assert!(bufs[0].len() == if want > C0 { C0 } else { want });
}

/// IoVectoredBuf::slice(begin): skips `begin` INITIALIZED bytes; the view iterates the rest of the concatenation
#[kani::proof]
#[kani::unwind(7)]
pub fn vectored_slice_read() {
    let (l0, l1) = (any_le(C0), any_le(C1));
    let bufs = [mk(C0, l0, 10), mk(C1, l1, 20)];
    assert!(bufs.total_len() == l0 + l1);
    let begin = any_le(l0 + l1);
    let vs = bufs.slice(begin);
    assert!(vs.begin() == begin);
    let mut p = begin;
    for s in vs.iter_slice() {
        let mut j = 0;
        while j < s.len() {
            let want = if p < l0 { 10 + p as u8 } else { 20 + (p - l0) as u8 };
            assert!(s[j] == want);
            p += 1; j += 1;
        }
    }
    assert!(p == l0 + l1);
}

/// tuple SetLen: (T, Rest) distributes head-first, never beyond a member's capacity
#[kani::proof]
#[kani::unwind(5)]
pub fn tuple_set_len() {
    let mut t = (mk(2, 0, 0), (mk(2, 0, 0),));
    for c in t.0.spare_capacity_mut() { c.write(1); }
    for c in (t.1).0.spare_capacity_mut() { c.write(2); }
    let n = any_le(4);
    unsafe { SetLen::set_len(&mut t, n) };
    assert!(t.0.len() == if n > 2 { 2 } else { n });
    assert!((t.1).0.len() == n - t.0.len());
}

/// VectoredBufIter visits every member exactly once, in order, and hands the buffers back unchanged
#[kani::proof]
#[kani::unwind(5)]
pub fn iter_visits_members_in_order() {
    let (l0, l1) = (any_le(C0), any_le(C1));
    let bufs = [mk(C0, l0, 10), mk(C1, l1, 20)];
    let p0 = bufs[0].as_ptr() as usize;
    let p1 = bufs[1].as_ptr() as usize;
    let mut it = match bufs.owned_iter() { Ok(it) => it, Err(_) => { assert!(false); return; } };
    assert!(it.as_init().len() == l0 && it.as_init().as_ptr() as usize == p0);
    assert!(it.as_uninit().len() == C0 && it.as_uninit().as_ptr() as usize == p0);
    let mut it = match it.next() { Ok(it) => it, Err(_) => { assert!(false); return; } };
    assert!(it.as_init().len() == l1 && it.as_init().as_ptr() as usize == p1);
    assert!(it.as_uninit().len() == C1 && it.as_uninit().as_ptr() as usize == p1);
    match it.next() {
        Ok(_) => assert!(false),
        Err(b) => assert!(b[0].len() == l0 && b[1].len() == l1),
    }
}

/// VectoredBufIter as a *view*: after a fill of k bytes the one contract must hold (prefix, lengths);
/// then next() + a fill of the second member.  KNOWN FINDING F2 on the pinned tree.
#[kani::proof]
#[kani::unwind(5)]
pub fn iter_view_contract_after_fill() {
    let bufs = [mk(C0, 0, 10), mk(C1, 0, 20)];
    let mut it = match bufs.owned_iter() { Ok(it) => it, Err(_) => { assert!(false); return; } };
    let k = any_le(C0);
    {
        let dst = it.as_uninit();
        let mut i = 0;
        while i < k { dst[i].write(0xA0 + i as u8); i += 1; }
    }
    unsafe { SetLenExt::advance_to(&mut it, k) };
    let (ip, il) = { let s = it.as_init(); (s.as_ptr() as usize, s.len()) };
    let (up, ul) = { let s = it.as_uninit(); (s.as_ptr() as usize, s.len()) };
    assert!(ip == up, "VectoredBufIter: initialized bytes are a prefix of the writable region");
    assert!(il == k, "VectoredBufIter: recorded bytes are visible");
    assert!(il <= ul);
}

/// default_set_len over THREE members (capacities 2, 1, 2): dense assignment, members beyond the recorded length
/// keep length 0 (seeded change C10-2: a wrong running remainder only shows from the third member on)
#[kani::proof]
#[kani::unwind(7)]
pub fn default_set_len_three_members() {
    let mut bufs = [mk(2, 0, 10), mk(1, 0, 20), mk(2, 0, 30)];
    for b in bufs.iter_mut() { for c in b.spare_capacity_mut() { c.write(7); } }
    let n = any_le(7);
    unsafe { SetLen::set_len(&mut bufs, n) };
    let want = if n > 5 { 5 } else { n };
    assert!(bufs[0].len() == if want > 2 { 2 } else { want });
    assert!(bufs[1].len() == if want > 3 { 1 } else if want > 2 { want - 2 } else { 0 });
    assert!(bufs[2].len() == if want > 3 { want - 3 } else { 0 });
    assert!(bufs[0].len() + bufs[1].len() + bufs[2].len() == want);
}

/// Vec<T> of three members (capacities 2, 3, 1) through slice_mut(begin) + dense fill + set_len(n): the bytes land at
/// concatenation positions [begin, begin+n) — checks the (member index, offset) computed by slice_mut for every begin,
/// including begins that skip two whole members (seeded change C10-6)
#[kani::proof]
#[kani::unwind(8)]
pub fn vectored_slice_mut_three_members() {
    const CAPS: [usize; 3] = [2, 3, 1];
    let mut bufs = vec![mk(2, 0, 10), mk(3, 0, 20), mk(1, 0, 30)];
    for b in bufs.iter_mut() { for c in b.spare_capacity_mut() { c.write(7); } }
    let begin = any_le(6);
    let mut vs = bufs.slice_mut(begin);
    let mut total = 0usize;
    for s in vs.iter_uninit_slice() { total += s.len(); }
    assert!(total == 6 - begin, "writable region of the view == concatenation shifted by begin");
    let n = any_le(total);
    let mut k = 0usize;
    for s in vs.iter_uninit_slice() {
        let mut j = 0;
        while j < s.len() && k < n { s[j].write(0xE0 + k as u8); j += 1; k += 1; }
    }
    unsafe { SetLen::set_len(&mut vs, n) };
    let bufs = vs.into_inner();
    let end = begin + n;   // VectoredSlice::set_len records begin + n on the underlying buffers
    assert!(bufs[0].len() + bufs[1].len() + bufs[2].len() == end);
    assert!(bufs[0].len() == if end > 2 { 2 } else { end });
    assert!(bufs[2].len() == if end > 5 { end - 5 } else { 0 });
    let mut p = begin;
    while p < end {
        let b = if p < 2 { bufs[0][p] } else if p < 5 { bufs[1][p - 2] } else { bufs[2][p - 5] };
        assert!(b == 0xE0 + (p - begin) as u8, "a written byte is not at its concatenation position");
        p += 1;
    }
}

/// VectoredBufIter, the way the vectored read helpers use it: THREE members (capacities 2, 1, 2) filled densely one after
/// the other through `owned_iter()` / `next()`; afterwards every member holds exactly what was recorded through it
/// (seeded change C10-r6-1: a running total that forgets earlier members only shows from the third member on)
#[kani::proof]
#[kani::unwind(7)]
pub fn iter_dense_fill_three_members() {
    let bufs = [mk(2, 0, 10), mk(1, 0, 20), mk(2, 0, 30)];
    let mut it = match bufs.owned_iter() { Ok(it) => it, Err(_) => { assert!(false); return; } };
    { let d = it.as_uninit(); d[0].write(0xA0); d[1].write(0xA1); }
    unsafe { SetLen::set_len(&mut it, 2) };
    let mut it = match it.next() { Ok(it) => it, Err(_) => { assert!(false); return; } };
    { let d = it.as_uninit(); d[0].write(0xB0); }
    unsafe { SetLen::set_len(&mut it, 1) };
    let mut it = match it.next() { Ok(it) => it, Err(_) => { assert!(false); return; } };
    let k = any_le(2);
    { let d = it.as_uninit(); let mut i = 0; while i < k { d[i].write(0xC0 + i as u8); i += 1; } }
    unsafe { SetLen::set_len(&mut it, k) };
    let b = it.into_inner();
    assert!(b[0].len() == 2 && b[0][0] == 0xA0 && b[0][1] == 0xA1, "first member lost what was recorded through it");
    assert!(b[1].len() == 1 && b[1][0] == 0xB0, "second member lost what was recorded through it");
    assert!(b[2].len() == k, "third member does not hold what was recorded through it");
    if k > 0 { assert!(b[2][0] == 0xC0); }
}

/// recording a length twice on the SAME member (a short fill, then more) must not leak into the next member
/// (seeded change C10-r6-4: the running total kept as an increment inside set_len)
#[kani::proof]
#[kani::unwind(5)]
pub fn iter_record_twice_same_member() {
    let bufs = [mk(C0, 0, 10), mk(C1, 0, 20)];
    let mut it = match bufs.owned_iter() { Ok(it) => it, Err(_) => { assert!(false); return; } };
    { let d = it.as_uninit(); d[0].write(1); d[1].write(2); }
    unsafe { SetLen::set_len(&mut it, 1) };
    unsafe { SetLen::set_len(&mut it, 2) };
    let b = it.into_inner();
    assert!(b[0].len() == 2, "first member does not hold the recorded length");
    assert!(b[1].len() == 0, "a second recording on the first member leaked into the second member");
}

/// recording a short fill does not move or shrink the member's writable region: a second short fill continues behind the
/// first (seeded change C10-r7-4: as_uninit starting at `filled` while set_len stays absolute)
#[kani::proof]
#[kani::unwind(5)]
pub fn iter_capacity_stable_after_record() {
    let bufs = [mk(C0, 0, 10), mk(C1, 0, 20)];
    let mut it = match bufs.owned_iter() { Ok(it) => it, Err(_) => { assert!(false); return; } };
    { let d = it.as_uninit(); d[0].write(0x31); }
    unsafe { SetLen::set_len(&mut it, 1) };
    assert!(it.as_uninit().len() == C0, "recording a short fill changed the member's writable region");
    { let d = it.as_uninit(); d[1].write(0x32); }
    unsafe { SetLen::set_len(&mut it, 2) };
    let b = it.into_inner();
    assert!(b[0].len() == 2 && b[0][0] == 0x31 && b[0][1] == 0x32);
    assert!(b[1].len() == 0);
}
