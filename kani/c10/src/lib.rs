//! Kani harnesses for C10 (DESIGN §4/C10): pointer-level check of the one view contract on the REAL
//! compio-buf types, and counterexample engine for the Verus unit `c10-view`.
//! Everything here is harness (environment / oracle); no code of compio is copied.
#![allow(unused, clippy::all)]
pub mod model;
#[cfg(kani)]
pub mod compose;
#[cfg(kani)]
pub mod handoff;
#[cfg(kani)]
pub mod vectored;
/// concrete-playback tests are written here by `./check --replay` (committed empty)
#[cfg(kani)]
mod playback_gen;
