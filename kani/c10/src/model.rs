//! Reference model of a view stack over one root allocation: the executable twin of the ghost `BV`
//! of units/common/buf.vrs.  Offsets are relative to the root allocation.
use compio_buf::*;

pub const CAP: usize = 4;

/// how the root implements `SetLen::set_len(n)` (all three satisfy the contract `n <= len' <= max(len, n)`)
#[derive(Clone, Copy, PartialEq)]
pub enum RootKind { Exact, Fixed, GrowOnly }

#[derive(Clone, Copy)]
pub struct Model {
    pub base: usize,            // address of the root allocation
    pub root_cap: usize,
    pub root_len: usize,        // expected initialized length of the root
    pub kind: RootKind,
    pub mem: [u8; CAP],         // expected content of the root
    pub def: [bool; CAP],       // which root bytes have ever been written (by construction or by a fill)
    pub stack: [(usize, Option<usize>); 3],
    pub depth: usize,
}

#[derive(Clone, Copy)]
pub struct V { pub off: usize, pub len: usize, pub cap: usize }

impl Model {
    pub fn new(base: usize, root_cap: usize, init: &[u8], kind: RootKind) -> Model {
        let mut mem = [0u8; CAP];
        let mut def = [false; CAP];
        let mut i = 0;
        while i < init.len() { mem[i] = init[i]; def[i] = true; i += 1; }
        Model { base, root_cap, root_len: init.len(), kind, mem, def, stack: [(0, None); 3], depth: 0 }
    }
    /// (off, len, cap) of the top view, folded from the root exactly like `slice_bv` in the overlay
    pub fn view(&self) -> V {
        let mut v = V { off: 0, len: self.root_len, cap: self.root_cap };
        let mut d = 0;
        while d < self.depth {
            let (a, b) = self.stack[d];
            let hi = |x: usize| match b { Some(b) if b <= x => b, _ => x };
            v = V { off: v.off + a, len: hi(v.len) - a, cap: hi(v.cap) - a };
            d += 1;
        }
        v
    }
    pub fn slice(mut self, a: usize, b: Option<usize>) -> Model {
        // preconditions of IoBufExt::slice (its two assert!s)
        assert!(a <= self.view().len);
        if let Some(b) = b { assert!(a <= b); }
        self.stack[self.depth] = (a, b);
        self.depth += 1;
        self
    }
    pub fn uninit(self) -> Model { let l = self.view().len; self.slice(l, None) }
    fn root_set_len(&mut self, n: usize) {
        match self.kind {
            RootKind::Exact => self.root_len = n,
            RootKind::Fixed => {}
            RootKind::GrowOnly => if n > self.root_len { self.root_len = n },
        }
    }
}

/// P1 + P2 at pointer level: as_init and as_uninit start at the same address `base + off`, have lengths
/// `len` / `cap`, and lie inside the root allocation; as_init shows the model's bytes.
pub fn check_view<B: IoBufMut>(b: &mut B, m: &Model) {
    let v = m.view();
    let (ip, il) = { let s = B::as_init(b); (s.as_ptr() as usize, s.len()) };
    let (up, ul) = { let s = B::as_uninit(b); (s.as_ptr() as usize, s.len()) };
    assert!(il == v.len, "initialized length");
    assert!(ul == v.cap, "writable length");
    assert!(il <= ul, "len <= cap");
    assert!(up == m.base + v.off, "writable region offset");
    assert!(ip == up, "initialized bytes are a prefix of the writable region");
    assert!(v.off + ul <= m.root_cap, "inside the allocation");
    let s = B::as_init(b);
    let mut i = 0;
    while i < il { assert!(s[i] == m.mem[v.off + i], "content of as_init"); i += 1; }
}

/// write `k` bytes `tag, tag+1, ..` at the start of the writable region, then record them
pub fn fill<B: IoBufMut>(b: &mut B, m: &mut Model, k: usize, tag: u8, use_advance_to: bool) {
    let v = m.view();
    assert!(k <= v.cap);
    {
        let dst = B::as_uninit(b);
        let mut i = 0;
        while i < k { dst[i].write(tag.wrapping_add(i as u8)); i += 1; }
    }
    let mut i = 0;
    while i < k { m.mem[v.off + i] = tag.wrapping_add(i as u8); m.def[v.off + i] = true; i += 1; }
    if use_advance_to {
        unsafe { SetLenExt::advance_to(b, k) };
        if k > v.len { m.root_set_len(v.off + k); }
    } else {
        unsafe { SetLen::set_len(b, k) };
        m.root_set_len(v.off + k);
    }
    // P3: at least k, at most max(old, k)
    let l = B::as_init(b).len();
    assert!(k <= l && l <= if v.len > k { v.len } else { k }, "set_len bounds");
}

/// after unwrapping the whole stack: the root shows exactly the model (P3: bytes at the positions where
/// they were written, nothing else touched, no never-written byte exposed)
pub fn check_root(root: &[u8], m: &Model) {
    assert!(root.len() == m.root_len, "root length");
    assert!(root.len() <= m.root_cap);
    let mut i = 0;
    while i < root.len() {
        assert!(m.def[i], "a never-written byte became initialized");
        assert!(root[i] == m.mem[i], "root content");
        i += 1;
    }
}
