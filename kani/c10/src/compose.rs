//! c10-compose: nestings of {slice(a..b), slice(a..), uninit()} over real roots, up to two fills, then unwrap.
use compio_buf::*;
use crate::model::*;

fn vec_root(len: usize) -> (Vec<u8>, Model) {
    let mut v: Vec<u8> = Vec::with_capacity(CAP);
    kani::assume(v.capacity() == CAP);
    let mut i = 0;
    while i < len { v.push(0x10 + i as u8); i += 1; }
    let m = Model::new(v.as_ptr() as usize, CAP, &v, RootKind::Exact);
    (v, m)
}

fn any_le(n: usize) -> usize { let x: usize = kani::any(); kani::assume(x <= n); x }

/// two fills with symbolic sizes and symbolic choice of advance_to / set_len
fn fills<B: IoBufMut>(b: &mut B, m: &mut Model) {
    check_view(b, m);
    let k1 = any_le(m.view().cap);
    fill(b, m, k1, 0xA0, kani::any());
    check_view(b, m);
    let k2 = any_le(m.view().cap);
    fill(b, m, k2, 0xB0, kani::any());
    check_view(b, m);
}

macro_rules! view {
    (R, $b:expr, $m:expr) => {{ let a = any_le($m.view().len); let e: usize = kani::any(); kani::assume(a <= e && e <= CAP + 1);
                                 ($b.slice(a..e), $m.slice(a, Some(e))) }};
    (F, $b:expr, $m:expr) => {{ let a = any_le($m.view().len); ($b.slice(a..), $m.slice(a, None)) }};
    (U, $b:expr, $m:expr) => {{ ($b.uninit(), $m.uninit()) }};
}

macro_rules! compose1 {
    ($name:ident, $v1:ident) => {
        #[kani::proof]
        #[kani::unwind(6)]
        pub fn $name() {
            let (root, m) = vec_root(any_le(CAP));
            let (mut b, mut m) = view!($v1, root, m);
            fills(&mut b, &mut m);
            let root = b.into_inner();
            check_root(&root, &m);
        }
    };
}
macro_rules! compose2 {
    ($name:ident, $v1:ident, $v2:ident) => {
        #[kani::proof]
        #[kani::unwind(6)]
        pub fn $name() {
            let (root, m) = vec_root(any_le(CAP));
            let (b, m) = view!($v1, root, m);
            let (mut b, mut m) = view!($v2, b, m);
            fills(&mut b, &mut m);
            let root = b.into_inner().into_inner();
            check_root(&root, &m);
        }
    };
}
macro_rules! compose3 {
    ($name:ident, $v1:ident, $v2:ident, $v3:ident) => {
        #[kani::proof]
        #[kani::unwind(6)]
        pub fn $name() {
            let (root, m) = vec_root(any_le(CAP));
            let (b, m) = view!($v1, root, m);
            let (b, m) = view!($v2, b, m);
            let (mut b, mut m) = view!($v3, b, m);
            fills(&mut b, &mut m);
            let root = b.into_inner().into_inner().into_inner();
            check_root(&root, &m);
        }
    };
}

compose1!(c1_r, R);
compose1!(c1_f, F);
compose1!(c1_u, U);
compose2!(c2_rr, R, R);
compose2!(c2_rf, R, F);
compose2!(c2_ru, R, U);
compose2!(c2_fr, F, R);
compose2!(c2_ff, F, F);
compose2!(c2_fu, F, U);
compose2!(c2_ur, U, R);
compose2!(c2_uf, U, F);
compose2!(c2_uu, U, U);
compose3!(c3_rfu, R, F, U);
compose3!(c3_fuf, F, U, F);
compose3!(c3_ufr, U, F, R);
compose3!(c3_frf, F, R, F);
compose3!(c3_uuf, U, U, F);
compose3!(c3_rrr, R, R, R);

/// P4: flatten() of a nested slice denotes the same view
#[kani::proof]
#[kani::unwind(6)]
pub fn flatten_same_view() {
    let (root, m) = vec_root(any_le(CAP));
    let a1 = any_le(m.view().len);
    let e1: Option<usize> = if kani::any() { let e: usize = kani::any(); kani::assume(a1 <= e); Some(e) } else { None };
    let m1 = m.slice(a1, e1);
    let s1 = match e1 { Some(e) => root.slice(a1..e), None => root.slice(a1..) };
    let a2 = any_le(m1.view().len);
    let e2: Option<usize> = if kani::any() { let e: usize = kani::any(); kani::assume(a2 <= e); Some(e) } else { None };
    let m2 = m1.slice(a2, e2);
    let s2 = match e2 { Some(e) => s1.slice(a2..e), None => s1.slice(a2..) };
    let mut f = s2.flatten();
    // same (off, len, cap) as the nested view, pointer-level
    check_view(&mut f, &m2);
}

// ---------------------------------------------------------------- other root kinds (depth 1: slice(a..) and uninit())
macro_rules! root_harness {
    ($name:ident, $mk:expr, $kind:expr, $view:ident) => {
        #[kani::proof]
        #[kani::unwind(6)]
        pub fn $name() {
            let len = any_le(CAP);
            let root = $mk(len);
            let init: &[u8] = root.as_init();
            let m = Model::new(init.as_ptr() as usize, CAP, init, $kind);
            let (mut b, mut m) = view!($view, root, m);
            // inline-storage roots move with the view: take the allocation address where it lives now
            m.base = b.as_inner().as_init().as_ptr() as usize;
            fills(&mut b, &mut m);
            let root = b.into_inner();
            check_root(root.as_init(), &m);
        }
    };
}
fn mk_array(_len: usize) -> [u8; CAP] { [0x10, 0x11, 0x12, 0x13] }
fn mk_box_array(_len: usize) -> Box<[u8; CAP]> { Box::new([0x10, 0x11, 0x12, 0x13]) }
fn mk_arrayvec(len: usize) -> compio_buf::arrayvec::ArrayVec<u8, CAP> {
    let mut v = compio_buf::arrayvec::ArrayVec::<u8, CAP>::new();
    let mut i = 0; while i < len { v.push(0x10 + i as u8); i += 1; }
    v
}
fn mk_bytesmut(len: usize) -> compio_buf::bytes::BytesMut {
    let mut v = compio_buf::bytes::BytesMut::with_capacity(CAP);
    kani::assume(v.capacity() == CAP);
    let mut i = 0; while i < len { v.extend_from_slice(&[0x10 + i as u8]); i += 1; }
    kani::assume(v.capacity() == CAP);
    v
}
fn mk_smallvec(len: usize) -> compio_buf::smallvec::SmallVec<[u8; CAP]> {
    let mut v = compio_buf::smallvec::SmallVec::<[u8; CAP]>::new();
    let mut i = 0; while i < len { v.push(0x10 + i as u8); i += 1; }
    v
}
// arrays report len == cap == N whatever `len` is
fn fixed_len(_l: usize) -> usize { CAP }
root_harness!(root_array_f, mk_array, RootKind::Fixed, F);
root_harness!(root_box_array_f, mk_box_array, RootKind::Fixed, F);
root_harness!(root_arrayvec_f, mk_arrayvec, RootKind::GrowOnly, F);
root_harness!(root_arrayvec_u, mk_arrayvec, RootKind::GrowOnly, U);
root_harness!(root_bytesmut_u, mk_bytesmut, RootKind::Exact, U);
root_harness!(root_smallvec_u, mk_smallvec, RootKind::GrowOnly, U);
