//! Contract hand-off (DESIGN §2.3 item 4): `IoBufExt::slice` is outside the Verus subset (reference patterns);
//! its contract is assumed by the Verus units and discharged here on the real function — loop-free,
//! full-domain in begin/end/buffer length: a complete proof.
use compio_buf::*;

/// zero-cost IoBuf double: reports an arbitrary initialized length without owning memory
pub struct Abs { len: usize }
impl IoBuf for Abs {
    fn as_init(&self) -> &[u8] {
        // never dereferenced by `slice()`; only `.len()` is read
        unsafe {
            let z: &[()] = std::slice::from_raw_parts(std::ptr::NonNull::<()>::dangling().as_ptr(), self.len);
            std::mem::transmute::<&[()], &[u8]>(z)
        }
    }
}
fn any_abs() -> (Abs, usize) { let len: usize = kani::any(); kani::assume(len <= isize::MAX as usize); (Abs { len }, len) }

#[kani::proof]
fn slice_range_from() {
    let (b, len) = any_abs(); let a: usize = kani::any();
    kani::assume(a <= len);
    let s = b.slice(a..);
    assert!(s.begin() == a && s.end().is_none());
}
#[kani::proof]
fn slice_range() {
    let (b, len) = any_abs(); let a: usize = kani::any(); let e: usize = kani::any();
    kani::assume(a <= len && a <= e);
    let s = b.slice(a..e);
    assert!(s.begin() == a && s.end() == Some(e));
}
#[kani::proof]
fn slice_range_to() {
    let (b, _len) = any_abs(); let e: usize = kani::any();
    let s = b.slice(..e);
    assert!(s.begin() == 0 && s.end() == Some(e));
}
#[kani::proof]
fn slice_range_full() {
    let (b, _len) = any_abs();
    let s = b.slice(..);
    assert!(s.begin() == 0 && s.end().is_none());
}
#[kani::proof]
fn slice_range_inclusive() {
    let (b, len) = any_abs(); let a: usize = kani::any(); let e: usize = kani::any();
    kani::assume(a <= len && e < usize::MAX && a <= e + 1);
    let s = b.slice(a..=e);
    assert!(s.begin() == a && s.end() == Some(e + 1));
}
#[kani::proof]
fn slice_range_to_inclusive() {
    let (b, _len) = any_abs(); let e: usize = kani::any();
    kani::assume(e < usize::MAX);
    let s = b.slice(..=e);
    assert!(s.begin() == 0 && s.end() == Some(e + 1));
}
/// the contract's preconditions are exactly the documented panics: outside them `slice` panics (no silent view)
#[kani::proof]
#[kani::should_panic]
fn slice_begin_beyond_len_panics() {
    let (b, len) = any_abs(); let a: usize = kani::any();
    kani::assume(a > len);
    let _ = b.slice(a..);
}

/// start bounds given as `(Bound, Bound)` pairs — the only way to get an EXCLUDED start: begin = n + 1 and the
/// documented `begin <= len` check applies to THAT value (seeded change C10-5)
#[kani::proof]
fn slice_bound_pair_excluded_start() {
    use std::ops::Bound;
    let (b, len) = any_abs(); let a: usize = kani::any();
    kani::assume(a < len);                       // begin = a + 1 <= len
    let s = b.slice((Bound::Excluded(a), Bound::Unbounded));
    assert!(s.begin() == a + 1 && s.end().is_none());
}
#[kani::proof]
#[kani::should_panic]
fn slice_bound_pair_excluded_start_at_len_panics() {
    use std::ops::Bound;
    let (b, len) = any_abs();
    kani::assume(len < usize::MAX);
    let _ = b.slice((Bound::Excluded(len), Bound::Unbounded));   // begin = len + 1 > len
}
