//! Kani harnesses over the REAL compio-driver crate: C06 (SharedFd protocol), C07 (buffer pool).
#![allow(unused, clippy::all)]
#[cfg(kani)]
pub mod c06;
#[cfg(kani)]
pub mod c10drv;
/// concrete-playback tests are written here by `./check --replay` (committed empty)
#[cfg(kani)]
mod playback_gen;
