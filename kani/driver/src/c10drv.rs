//! C10 (bounded): the driver-side recording step — `BufResultExt::map_advanced` / `VecBufResultExt::map_vec_advanced`
//! (compio-driver/src/sys/op/ext.rs) turn "the OS reported n bytes" into "n bytes are initialized" on the buffer.
use compio_buf::*;
use compio_driver::op::{BufResultExt, VecBufResultExt};

fn vec_cap(cap: usize, len: usize) -> Vec<u8> {
    let mut v = Vec::with_capacity(cap);
    kani::assume(v.capacity() == cap);
    let mut i = 0; while i < len { v.push(i as u8); i += 1; }
    for c in v.spare_capacity_mut() { c.write(0xEE); }
    v
}
fn any_le(n: usize) -> usize { let x: usize = kani::any(); kani::assume(x <= n); x }

/// Ok(n): the buffer's length becomes max(len, n), never beyond the capacity, content untouched; Err: nothing changes
#[kani::proof]
#[kani::unwind(6)]
pub fn map_advanced_records_result() {
    let len = any_le(4);
    let n = any_le(4);
    let buf = vec_cap(4, len);
    let BufResult(r, buf) = unsafe { BufResult(Ok(n), buf).map_advanced() };
    assert!(matches!(r, Ok(m) if m == n));
    assert!(buf.len() == if n > len { n } else { len });
    let mut i = 0; while i < len { assert!(buf[i] == i as u8); i += 1; }
    // through a view with begin > 0: the underlying buffer records begin + n
    let buf = vec_cap(4, 2);
    let k = any_le(2);
    let BufResult(_, view) = unsafe { BufResult(Ok(k), buf.slice(2..)).map_advanced() };
    assert!(view.as_init().len() == k);
    assert!(view.into_inner().len() == 2 + k);
    // an error records nothing
    let buf = vec_cap(4, 1);
    let BufResult(r, buf) = unsafe { BufResult::<usize, _>(Err(std::io::Error::from(std::io::ErrorKind::Other)), buf).map_advanced() };
    assert!(buf.len() == 1);
    std::mem::forget(r);
}

/// vectored twin: n bytes are distributed densely over the members (capacities 2 and 3)
#[kani::proof]
#[kani::unwind(7)]
pub fn map_vec_advanced_records_result() {
    let n = any_le(5);
    let bufs = [vec_cap(2, 0), vec_cap(3, 0)];
    let BufResult(r, bufs) = unsafe { BufResult(Ok(n), bufs).map_vec_advanced() };
    assert!(matches!(r, Ok(m) if m == n));
    assert!(bufs[0].len() == if n > 2 { 2 } else { n });
    assert!(bufs[1].len() == n - bufs[0].len());
}

/// the (payload, control) forms used by recvmsg-style operations — 3-tuple and 4-tuple results, scalar and vectored
/// payload: the PAYLOAD length is recorded in the payload buffer and the CONTROL length in the control buffer, never
/// crosswise (seeded change C10-r7-2), for different lengths
#[kani::proof]
#[kani::unwind(7)]
pub fn map_advanced_payload_and_control() {
    let n = any_le(4);
    let m = any_le(3);
    let BufResult(r, (b, c)) = unsafe { BufResult(Ok((n, m, ())), (vec_cap(4, 0), vec_cap(3, 0))).map_advanced() };
    assert!(matches!(r, Ok((x, y, ())) if x == n && y == m));
    assert!(b.len() == n && c.len() == m, "3-tuple scalar form: payload/control lengths recorded in the wrong buffer");
    let BufResult(r, (b, c)) = unsafe { BufResult(Ok((n, m, (), ())), (vec_cap(4, 0), vec_cap(3, 0))).map_advanced() };
    assert!(b.len() == n && c.len() == m, "4-tuple scalar form: payload/control lengths recorded in the wrong buffer");
    std::mem::forget(r);
    let k = any_le(5);
    let BufResult(r, (bs, c)) = unsafe { BufResult(Ok((k, m, ())), ([vec_cap(2, 0), vec_cap(3, 0)], vec_cap(3, 0))).map_vec_advanced() };
    assert!(bs[0].len() + bs[1].len() == k && c.len() == m, "3-tuple vectored form");
    std::mem::forget(r);
    let BufResult(r, (bs, c)) = unsafe { BufResult(Ok((k, m, (), ())), ([vec_cap(2, 0), vec_cap(3, 0)], vec_cap(3, 0))).map_vec_advanced() };
    assert!(bs[0].len() + bs[1].len() == k && c.len() == m, "4-tuple vectored form: payload/control lengths recorded in the wrong buffer");
    std::mem::forget(r);
}
