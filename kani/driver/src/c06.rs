//! C06 (bounded): SharedFd<T>::{new_unchecked, clone, drop, try_unwrap, take} on the default (unsync) build.
//! The "descriptor" is a token whose Drop counts: closed exactly once, never while another holder exists,
//! an explicit close (take) completes as soon as and not before every other holder has let go.
use compio_driver::SharedFd;
use std::{
    future::Future,
    pin::Pin,
    sync::Arc,
    sync::atomic::{AtomicUsize, Ordering},
    task::{Context, Poll, Wake, Waker},
};

static DROPS: AtomicUsize = AtomicUsize::new(0);
pub struct Tok;
impl Drop for Tok {
    fn drop(&mut self) { DROPS.fetch_add(1, Ordering::Relaxed); }
}
fn drops() -> usize { DROPS.load(Ordering::Relaxed) }

pub struct CountWake(pub AtomicUsize);
impl Wake for CountWake {
    fn wake(self: Arc<Self>) { self.0.fetch_add(1, Ordering::Relaxed); }
    fn wake_by_ref(self: &Arc<Self>) { self.0.fetch_add(1, Ordering::Relaxed); }
}
fn waker() -> (Arc<CountWake>, Waker) {
    let cw = Arc::new(CountWake(AtomicUsize::new(0)));
    let w = Waker::from(cw.clone());
    (cw, w)
}
fn woken(cw: &Arc<CountWake>) -> usize { cw.0.load(Ordering::Relaxed) }

/// no other holder: close completes at the first poll, descriptor alive until the caller drops it, closed once
#[kani::proof]
#[kani::unwind(5)]
pub fn take_alone_is_immediate() {
    let fd = unsafe { SharedFd::new_unchecked(Tok) };
    let (_cw, w) = waker();
    let mut cx = Context::from_waker(&w);
    let mut fut = Box::pin(fd.take());
    match fut.as_mut().poll(&mut cx) {
        Poll::Ready(Some(t)) => { assert!(drops() == 0); drop(t); assert!(drops() == 1); }
        _ => assert!(false, "close did not complete although nobody else holds the descriptor"),
    }
    drop(fut);
    assert!(drops() == 1);
}

/// two other holders, released in either order, with or without an intermediate poll:
/// not before the last release, and the registered waker has fired by then (no lost wake-up)
#[kani::proof]
#[kani::unwind(5)]
pub fn take_waits_for_two_clones() {
    let fd = unsafe { SharedFd::new_unchecked(Tok) };
    let mut c1 = Some(fd.clone());
    let mut c2 = Some(fd.clone());
    let (cw, w) = waker();
    let mut cx = Context::from_waker(&w);
    let mut fut = Box::pin(fd.take());
    assert!(fut.as_mut().poll(&mut cx).is_pending());
    assert!(drops() == 0);
    if kani::any() { c1.take(); } else { c2.take(); }
    if kani::any() { assert!(fut.as_mut().poll(&mut cx).is_pending(), "close completed while another holder exists"); }
    assert!(drops() == 0, "descriptor closed while in use");
    let before = woken(&cw);
    c1.take();
    c2.take();
    assert!(drops() == 0);
    assert!(woken(&cw) > before, "last release did not wake the pending close");
    match fut.as_mut().poll(&mut cx) {
        Poll::Ready(Some(t)) => { assert!(drops() == 0); drop(t); assert!(drops() == 1); }
        _ => assert!(false, "close did not complete after the last release"),
    }
}

/// three other holders, every release order (symbolic), a poll after every release
#[kani::proof]
#[kani::unwind(6)]
pub fn take_waits_for_three_clones() {
    let fd = unsafe { SharedFd::new_unchecked(Tok) };
    let mut cs = [Some(fd.clone()), Some(fd.clone()), Some(fd.clone())];
    let (cw, w) = waker();
    let mut cx = Context::from_waker(&w);
    let mut fut = Box::pin(fd.take());
    assert!(fut.as_mut().poll(&mut cx).is_pending());
    let mut left = 3;
    while left > 0 {
        let i: usize = kani::any();
        kani::assume(i < 3 && cs[i].is_some());
        let before = woken(&cw);
        cs[i].take();
        left -= 1;
        assert!(drops() == 0, "descriptor closed while the closer has not taken it");
        if left > 0 {
            assert!(fut.as_mut().poll(&mut cx).is_pending(), "close completed while another holder exists");
        } else {
            assert!(woken(&cw) > before, "last release did not wake the pending close");
        }
    }
    match fut.as_mut().poll(&mut cx) {
        Poll::Ready(Some(t)) => { drop(t); assert!(drops() == 1); }
        _ => assert!(false, "close did not complete after the last release"),
    }
}

/// plain drops in any order: closed exactly once, by the last one
#[kani::proof]
#[kani::unwind(6)]
pub fn drops_close_once_at_the_end() {
    let fd = unsafe { SharedFd::new_unchecked(Tok) };
    let mut cs = [Some(fd.clone()), Some(fd.clone()), Some(fd)];
    let mut left = 3;
    while left > 0 {
        let i: usize = kani::any();
        kani::assume(i < 3 && cs[i].is_some());
        assert!(drops() == 0);
        cs[i].take();
        left -= 1;
    }
    assert!(drops() == 1);
}

/// try_unwrap: hands the descriptor out only to the sole holder, otherwise gives the handle back intact
#[kani::proof]
#[kani::unwind(5)]
pub fn try_unwrap_only_when_alone() {
    let fd = unsafe { SharedFd::new_unchecked(Tok) };
    let c = fd.clone();
    let fd = match fd.try_unwrap() { Ok(_) => { assert!(false); return; } Err(fd) => fd };
    assert!(drops() == 0);
    drop(c);
    assert!(drops() == 0);
    match fd.try_unwrap() { Ok(t) => { assert!(drops() == 0); drop(t); } Err(_) => assert!(false) }
    assert!(drops() == 1);
}

/// two concurrent closes: the second is refused (None) — and the first one must still complete
#[kani::proof]
#[kani::unwind(5)]
pub fn second_take_is_refused_first_completes() {
    let fd = unsafe { SharedFd::new_unchecked(Tok) };
    let c = fd.clone();
    let (cw, w) = waker();
    let mut cx = Context::from_waker(&w);
    let (_cw2, w2) = waker();
    let mut cx2 = Context::from_waker(&w2);
    let mut fut1 = Box::pin(fd.take());
    assert!(fut1.as_mut().poll(&mut cx).is_pending());
    let before = woken(&cw);
    let mut fut2 = Box::pin(c.take());
    match fut2.as_mut().poll(&mut cx2) {
        Poll::Ready(None) => {}
        _ => assert!(false, "second concurrent close was not refused"),
    }
    drop(fut2);
    assert!(drops() == 0);
    // the refused closer has let go of its handle: the first close must be woken and complete
    assert!(woken(&cw) > before, "SharedFd::take: the refused second closer released its handle without waking the first");
    match fut1.as_mut().poll(&mut cx) {
        Poll::Ready(Some(t)) => { drop(t); assert!(drops() == 1); }
        _ => assert!(false),
    }
}

/// a close that is cancelled (future dropped while pending) neither closes early nor leaks
#[kani::proof]
#[kani::unwind(5)]
pub fn cancelled_take_does_not_leak() {
    let fd = unsafe { SharedFd::new_unchecked(Tok) };
    let c = fd.clone();
    let (_cw, w) = waker();
    let mut cx = Context::from_waker(&w);
    let mut fut = Box::pin(fd.take());
    assert!(fut.as_mut().poll(&mut cx).is_pending());
    drop(fut);
    assert!(drops() == 0, "cancelled close closed a descriptor that is still held");
    drop(c);
    assert!(drops() == 1, "descriptor leaked after a cancelled close");
}

/// a close future that is created and dropped WITHOUT being polled (the losing branch of a select!, an elapsed timeout) is
/// a release like any other: if it was the last other holder, the pending close must be woken and complete (F16)
#[kani::proof]
#[kani::unwind(5)]
pub fn unpolled_take_dropped_first_completes() {
    let fd = unsafe { SharedFd::new_unchecked(Tok) };
    let c = fd.clone();
    let (cw, w) = waker();
    let mut cx = Context::from_waker(&w);
    let mut fut1 = Box::pin(fd.take());
    assert!(fut1.as_mut().poll(&mut cx).is_pending());
    let before = woken(&cw);
    let fut2 = c.take();
    drop(fut2);
    assert!(drops() == 0);
    assert!(woken(&cw) > before, "SharedFd::take: a close future dropped before its first poll released its handle without waking the pending close");
    match fut1.as_mut().poll(&mut cx) {
        Poll::Ready(Some(t)) => { drop(t); assert!(drops() == 1); }
        _ => assert!(false),
    }
}

/// the pending close is polled again with a DIFFERENT waker (the future moved to another task): the last release must wake
/// the waker of the latest poll, not a stale one
#[kani::proof]
#[kani::unwind(5)]
pub fn take_repolled_with_new_waker_is_woken() {
    let fd = unsafe { SharedFd::new_unchecked(Tok) };
    let c = fd.clone();
    let (_cw1, w1) = waker();
    let mut cx1 = Context::from_waker(&w1);
    let (cw2, w2) = waker();
    let mut cx2 = Context::from_waker(&w2);
    let mut fut = Box::pin(fd.take());
    assert!(fut.as_mut().poll(&mut cx1).is_pending());
    assert!(fut.as_mut().poll(&mut cx2).is_pending());
    let before = woken(&cw2);
    drop(c);
    assert!(woken(&cw2) > before, "last release woke a stale waker, not the one of the latest poll");
    match fut.as_mut().poll(&mut cx2) {
        Poll::Ready(Some(t)) => { drop(t); assert!(drops() == 1); }
        _ => assert!(false),
    }
}
