"""Run Kani harness crates (DESIGN §2.3).  One `cargo kani` invocation per crate and tier."""
import json
import os
import re
import subprocess
import time

HERE = os.path.dirname(os.path.abspath(__file__))
ROOT = os.path.dirname(HERE)


def crate_dir(crate):
    return os.path.join(ROOT, 'kani', crate)


def load_meta(crate):
    return json.load(open(os.path.join(crate_dir(crate), 'harnesses.json')))


def _env(crate):
    env = dict(os.environ)
    env['CARGO_NET_OFFLINE'] = 'true'
    env['CARGO_TARGET_DIR'] = os.path.join(ROOT, 'target', 'kani-' + crate)
    env.setdefault('RUSTFLAGS', '')
    if 'compio_rs_compio_verif' not in env['RUSTFLAGS']:
        env['RUSTFLAGS'] = (env['RUSTFLAGS'] + ' --cfg compio_rs_compio_verif').strip()
    return env


def prepare(crate):
    d = crate_dir(crate)
    lock = os.path.join(d, 'Cargo.lock')
    if not os.path.exists(lock):
        # start from the repository's lock file so that the same dependency versions are used
        try:
            open(lock, 'w').write(open('/repo/Cargo.lock').read())
        except Exception:
            pass
    pg = os.path.join(d, 'src', 'playback_gen.rs')
    if not os.path.exists(pg):
        open(pg, 'w').write('')


_ANSI = re.compile(r'\x1b\[[0-9;]*m')


def parse_output(out):
    """returns {harness: {'status': 'success'|'failed'|'undecided', 'time_s', 'checks', 'failed_checks': [...]}}"""
    res = {}
    cur_by_thread = {}
    thread = None
    cur = None
    block = None
    for raw in out.split('\n'):
        ln = _ANSI.sub('', raw).rstrip()
        m = re.match(r'^(?:Thread (\d+): )?Checking harness ([\w:<>, ]+?)\.\.\.', ln)
        if m:
            th = m.group(1) or '0'
            cur_by_thread[th] = m.group(2)
            res[m.group(2)] = {'status': 'undecided', 'failed_checks': [], 'time_s': None, 'checks': None}
            thread = th
            continue
        m = re.match(r'^Thread (\d+):\s*$', ln)
        if m:
            thread = m.group(1)
            continue
        if thread is None and cur_by_thread:
            thread = list(cur_by_thread)[-1]
        h = cur_by_thread.get(thread) if thread is not None else None
        if h is None:
            continue
        r = res[h]
        m = re.match(r'^\s*\*\* (\d+) of (\d+) failed', ln)
        if m:
            r['checks'] = int(m.group(2))
            r['nfailed'] = int(m.group(1))
            continue
        m = re.match(r'^Failed Checks: (.*)$', ln)
        if m:
            r['failed_checks'].append({'desc': m.group(1).strip()})
            continue
        m = re.match(r'^\s*File: "([^"]*)", line (\d+), in (.*)$', ln)
        if m and r['failed_checks']:
            r['failed_checks'][-1].update(file=m.group(1), line=int(m.group(2)), func=m.group(3))
            continue
        if ln.startswith('VERIFICATION:- SUCCESSFUL'):
            r['status'] = 'success'
            continue
        if ln.startswith('VERIFICATION:- FAILED'):
            r['status'] = 'failed'
            if 'no panics' in ln:
                # #[kani::should_panic] harness: the documented panic did NOT occur on some path
                r['failed_checks'].append({'desc': 'expected panic did not occur (should_panic harness): ' + ln[len('VERIFICATION:- FAILED'):].strip()})
            continue
        m = re.match(r'^Verification Time: ([0-9.]+)s', ln)
        if m:
            r['time_s'] = float(m.group(1))
            continue
        if 'CBMC timed out' in ln or 'timed out' in ln.lower() and 'harness' in ln.lower():
            r['status'] = 'undecided'
            r['reason'] = 'timeout'
    # a FAILED harness whose only failed checks are unwinding assertions / unsupported constructs is undecided
    for h, r in res.items():
        if r['status'] == 'failed' and r['failed_checks']:
            descs = [c['desc'] for c in r['failed_checks']]
            if all(('unwinding assertion' in d) or ('is not currently supported' in d) or ('unsupported' in d.lower())
                   for d in descs):
                r['status'] = 'undecided'
                r['reason'] = 'only unwinding/unsupported-construct checks failed: ' + '; '.join(descs)[:300]
        if r['status'] == 'failed' and not r['failed_checks']:
            r['status'] = 'undecided'
            r['reason'] = 'FAILED without a failed property (resource limit / internal)'
    return res


def run_crate(crate, harnesses, jobs=6, harness_timeout=600, total_timeout=3600, extra=()):
    """harnesses: list of fully qualified names.  Returns (results, info)"""
    prepare(crate)
    d = crate_dir(crate)
    meta = load_meta(crate)
    flags = meta.get('kani_flags', [])
    cmd = ['cargo', 'kani', '--output-format', 'terse', '-j', str(jobs), '--exact',
           '-Z', 'unstable-options', '--harness-timeout', f'{harness_timeout}s'] + flags + list(extra)
    for h in harnesses:
        cmd += ['--harness', h]
    t0 = time.time()
    info = {'cmd': ' '.join(cmd), 'crate': crate}
    try:
        # ulimit: keep a single CBMC from eating the box (62 GB, no swap)
        p = subprocess.run(['bash', '-c', 'ulimit -v 42000000; exec "$@"', 'bash'] + cmd, cwd=d, env=_env(crate),
                           capture_output=True, text=True, timeout=total_timeout)
        out = p.stdout + '\n' + p.stderr
        info['rc'] = p.returncode
    except subprocess.TimeoutExpired as e:
        out = (e.stdout or b'').decode() if isinstance(e.stdout, bytes) else (e.stdout or '')
        out += '\n' + ((e.stderr or b'').decode() if isinstance(e.stderr, bytes) else (e.stderr or ''))
        info['rc'] = 'timeout'
    info['wall_s'] = round(time.time() - t0, 1)
    res = parse_output(out)
    build_failed = ('could not compile' in out) or ('error: Failed to execute cargo' in out) or \
        ('error[E' in out and not res)
    if build_failed:
        info['build_error'] = '\n'.join(l for l in out.split('\n') if 'error' in l.lower())[:3000]
    for h in harnesses:
        if h not in res:
            res[h] = {'status': 'undecided', 'failed_checks': [], 'time_s': None, 'checks': None,
                      'reason': 'build failed' if build_failed else 'no result (timeout / resource limit)'}
    info['log_tail'] = out[-3000:] if build_failed else ''
    logdir = os.path.join(ROOT, 'build')
    os.makedirs(logdir, exist_ok=True)
    open(os.path.join(logdir, f'kani-{crate}.log'), 'w').write(out)
    return res, info


def concrete_playback(crate, harness, timeout=1200):
    """re-run a failing harness asking for concrete values; returns dict(test_code, values) or None"""
    prepare(crate)
    meta = load_meta(crate)
    flags = meta.get('kani_flags', [])
    cmd = ['cargo', 'kani', '--output-format', 'terse', '--exact', '--harness', harness,
           '-Z', 'concrete-playback', '--concrete-playback=print'] + flags
    try:
        p = subprocess.run(['bash', '-c', 'ulimit -v 42000000; exec "$@"', 'bash'] + cmd, cwd=crate_dir(crate),
                           env=_env(crate), capture_output=True, text=True, timeout=timeout)
    except subprocess.TimeoutExpired:
        return None
    out = _ANSI.sub('', p.stdout)
    tests = re.findall(r'```\n(.*?)```', out, flags=re.S)
    if not tests:
        return None
    return {'tests': tests, 'cmd': ' '.join(cmd)}


def run_playback(crate, harness, test_code, timeout=900):
    """write the generated unit test next to the harness crate and execute it natively (`cargo kani playback`)."""
    prepare(crate)
    d = crate_dir(crate)
    mod = harness.rsplit('::', 1)[0] if '::' in harness else ''
    pg = os.path.join(d, 'src', 'playback_gen.rs')
    # keep only the test function: the generated doc comment can contain a multi-line assertion text that is not valid Rust
    k = test_code.find('#[test]')
    if k > 0:
        test_code = test_code[k:]
    m = re.search(r'fn (kani_concrete_playback_\w+)', test_code)
    name = m.group(1) if m else 'kani_concrete_playback'
    try:
        open(pg, 'w').write((f'use crate::{mod}::*;\n' if mod else '') + test_code + '\n')
        cmd = ['cargo', 'kani', 'playback', '-Z', 'concrete-playback'] + load_meta(crate).get('playback_flags', []) + \
              ['--', name]
        p = subprocess.run(cmd, cwd=d, env=_env(crate), capture_output=True, text=True, timeout=timeout)
        out = _ANSI.sub('', p.stdout + '\n' + p.stderr)
    except subprocess.TimeoutExpired:
        out = 'playback timeout'
        p = None
    finally:
        open(pg, 'w').write('')
    failed = ('test result: FAILED' in out) or ('panicked at' in out)
    # keep the interesting part
    keep = []
    for ln in out.split('\n'):
        if ('panicked at' in ln or 'test result' in ln or ln.startswith('failures') or
                (keep and len(keep) < 12 and not ln.startswith('  '))):
            keep.append(ln)
    return {'cmd': ' '.join(cmd), 'reproduced': failed, 'output': '\n'.join(keep)[:3000],
            'panic': next((l for l in out.split('\n') if 'panicked at' in l), None)}
