#!/usr/bin/env python3
"""./check Cxx [--tier quick|thorough] [--replay FILE] [--rebaseline] — DESIGN §2.4"""
import argparse
import concurrent.futures as cf
import hashlib
import json
import os
import random
import re
import sys
import time

HERE = os.path.dirname(os.path.abspath(__file__))
ROOT = os.path.dirname(HERE)
sys.path.insert(0, HERE)
import verus_unit  # noqa: E402
import kani_unit  # noqa: E402
from registry import PROPS, TRUSTED_BASE  # noqa: E402

REPLAYS = os.path.join(ROOT, 'replays')
EVID = os.path.join(ROOT, 'evidence')


def load_known():
    p = os.path.join(ROOT, 'known_findings.json')
    if not os.path.exists(p):
        return []
    return json.load(open(p)).get('findings', [])


def known_match(known, prop, unit, obligation, detail):
    """a finding matches when property, unit and obligation id are equal and the recorded input class
    (a regex over the failing clause / failed check text) matches what failed now"""
    for k in known:
        if k.get('status') != 'known':
            continue
        if k['property'] != prop or k['unit'] != unit or k['obligation'] != obligation:
            continue
        if re.search(k.get('input_class', '.*'), detail or ''):
            return k
    return None


def baseline_path(unit):
    return os.path.join(ROOT, 'units', unit, 'baseline.json')


def load_baseline(unit):
    p = baseline_path(unit)
    if not os.path.exists(p):
        return None
    return json.load(open(p))


def slug(s):
    return re.sub(r'[^A-Za-z0-9_.-]+', '_', s)[:80]


def write_replay(prop, name, payload):
    os.makedirs(REPLAYS, exist_ok=True)
    p = os.path.join(REPLAYS, f'{prop}-{slug(name)}.json')
    json.dump(payload, open(p, 'w'), indent=1)
    return p


MAX_EAGER_REPLAYS = int(os.environ.get('VERIF_MAX_REPLAYS', '4'))
_replays_done = [0]


def kani_counterexample(prop, crate, harness, result, eager=True):
    """concrete playback + native replay of a failing harness; returns replay payload.
    Only the first MAX_EAGER_REPLAYS failing harnesses of a run are replayed eagerly (each costs a CBMC re-run and a
    native build); for the others the replay file records the failed checks and `./check --replay FILE` extracts and
    replays the counterexample on demand."""
    payload = {'property': prop, 'engine': 'kani', 'crate': crate, 'harness': harness,
               'failed_checks': result.get('failed_checks'), 'kind': 'kani-counterexample'}
    if not eager or _replays_done[0] >= MAX_EAGER_REPLAYS:
        payload['deferred'] = ('CBMC found a counterexample for this harness (failed checks above); concrete values are '
                               'extracted and replayed natively by `./check %s --replay <this file>`' % prop)
        return payload
    _replays_done[0] += 1
    pb = kani_unit.concrete_playback(crate, harness)
    if pb:
        payload['playback_tests'] = pb['tests']
        payload['playback_cmd'] = pb['cmd']
        rp = kani_unit.run_playback(crate, harness, pb['tests'][0])
        payload['native_replay'] = rp
    return payload


def do_replay(path):
    pl = json.load(open(path))
    print(f'replay file: {path}')
    print(f'property={pl.get("property")} obligation={pl.get("obligation")}')
    if pl.get('deferred') and not pl.get('playback_tests'):
        pb = kani_unit.concrete_playback(pl['crate'], pl['harness'])
        if pb:
            pl['playback_tests'] = pb['tests']
            pl['playback_cmd'] = pb['cmd']
            json.dump(pl, open(path, 'w'), indent=1)
    if pl.get('playback_tests'):
        rp = kani_unit.run_playback(pl['crate'], pl['harness'], pl['playback_tests'][0])
        print(rp['cmd'])
        print(rp['output'])
        print('REPRODUCED' if rp['reproduced'] else 'NOT-REPRODUCED')
        return 1 if rp['reproduced'] else 0
    print('no concrete input in this replay file (no-failing-input-found); verifier output follows')
    for f in pl.get('verus_failures', []):
        print(f.get('rendered', ''))
    return 1


def contract_text(verus_results, oid):
    """signature + contract clauses of an extracted function as they stand in the woven unit (for the evidence samples)"""
    try:
        u, fid_ = oid.split(' :: ', 1)
        r = verus_results.get(u)
        if not r:
            return None
        e = next((x for x in r.get('extracted', []) if x['id'] == fid_ and x['kind'] == 'fn'), None)
        if not e:
            return None
        lines = open(r['woven']).read().split('\n')
        lo, hi = e['woven_lines']
        out = []
        for ln in lines[lo - 1:hi]:
            if ln.strip().startswith('{'):
                break
            out.append(ln.strip())
        return ' '.join(out)[:900]
    except Exception:
        return None


def run_property(prop, tier, seed, rebaseline=False, only_units=None):
    t0 = time.time()
    cfg = PROPS[prop]
    known = load_known()
    lines = []          # KNOWN-FINDING / VIOLATION / UNDECIDED lines
    violations = []
    undecided = []
    verus_results = {}
    kani_results = {}
    kani_infos = {}

    verus_units = [u for u in cfg.get('verus', []) if not only_units or u in only_units]
    kani_crates = [c for c in cfg.get('kani', []) if not only_units or c in only_units]

    def run_verus(u):
        r = verus_unit.run_unit(u)
        # instability guard: re-run a failing unit twice (rlimit x4, other seeds); keep only failures seen every time
        if r['status'] == 'ok' and any(v['status'] == 'failed' for v in r['functions'].values()):
            fails = {k for k, v in r['functions'].items() if v['status'] == 'failed'}
            stable = set(fails)
            for s in (7, 23):
                r2 = verus_unit.run_unit(u, rlimit=80, extra_opts=['--smt-option', f'smt.random_seed={s}'])
                if r2['status'] != 'ok':
                    continue
                stable &= {k for k, v in r2['functions'].items() if v['status'] == 'failed'}
            r['unstable'] = sorted(fails - stable)
            for k in r['unstable']:
                r['functions'][k]['status'] = 'unstable'
        return r

    def select(crate):
        meta = kani_unit.load_meta(crate)
        hs = []
        for h in meta['harnesses']:
            if prop not in h.get('properties', [prop]):
                continue
            if h.get('tier') == 'off':
                continue   # kept as source only (CBMC does not finish it); listed in harnesses.json with the reason
            if tier == 'quick' and h.get('tier', 'quick') != 'quick':
                continue
            hs.append(h)
        return meta, hs

    with cf.ThreadPoolExecutor(max_workers=6) as ex:
        vf = {u: ex.submit(run_verus, u) for u in verus_units}
        # kani crates run one after the other (each uses -j); verus runs alongside
        for c in kani_crates:
            meta, hs = select(c)
            names = [h['name'] for h in hs]
            rnd = random.Random(seed)
            rnd.shuffle(names)
            if names:
                res, info = kani_unit.run_crate(c, names, jobs=meta.get('jobs', 6),
                                                harness_timeout=meta.get('harness_timeout', 900))
            else:
                res, info = {}, {'crate': c, 'cmd': '', 'wall_s': 0}
            kani_results[c] = (meta, hs, res)
            kani_infos[c] = info
        for u, f in vf.items():
            verus_results[u] = f.result()

    # ------------------------------------------------------------------ rebaseline
    if rebaseline:
        for u, r in verus_results.items():
            if r['status'] != 'ok':
                print(f'cannot rebaseline {u}: {r["reason"]}')
                continue
            b = {'unit': u, 'functions': {}}
            for k, v in sorted(r['functions'].items()):
                if k.split(' :: ')[-1].startswith('canary_'):
                    b['functions'][k] = 'canary'
                elif v['status'] == 'verified':
                    b['functions'][k] = 'verified'
                else:
                    b['functions'][k] = 'failed-at-baseline'
            bad = [k for k, x in b['functions'].items() if x == 'failed-at-baseline']
            if bad and not os.environ.get('VERIF_FORCE_REBASELINE'):
                print(f'REFUSED to baseline {u}: these obligations fail on the current tree: {bad} '
                      '(fix the overlay or the code; VERIF_FORCE_REBASELINE=1 overrides)')
                continue
            b['assumptions'] = sorted({f'{a["kind"]} @ {a["at"]}' for a in r.get('assumptions', [])})
            json.dump(b, open(baseline_path(u), 'w'), indent=1, sort_keys=True)
            print(f'baseline written for {u}: {sum(1 for x in b["functions"].values() if x == "verified")} verified, '
                  f'{sum(1 for x in b["functions"].values() if x == "failed-at-baseline")} failed, '
                  f'{sum(1 for x in b["functions"].values() if x == "canary")} canaries')

    # ------------------------------------------------------------------ decide: verus
    obligations = []   # proof-level obligations: dicts(id, engine, status, detail)
    bounded = []
    for u, r in verus_results.items():
        base = load_baseline(u)
        if r['status'] != 'ok':
            undecided.append({'unit': u, 'reason': r['reason']})
            # every baseline obligation of the unit is undecided
            if base:
                for k, st in base['functions'].items():
                    if st == 'verified':
                        obligations.append({'id': f'{u} :: {k}', 'engine': 'verus', 'status': 'undecided',
                                            'detail': r['reason']})
            continue
        if base is None:
            undecided.append({'unit': u, 'reason': 'no baseline.json (run ./check --rebaseline)'})
            continue
        # vacuity guards
        n_decl = len(r['functions'])
        if n_decl == 0:
            undecided.append({'unit': u, 'reason': 'vacuous: no obligations generated'})
        for k, st in base['functions'].items():
            cur = r['functions'].get(k)
            oid = f'{u} :: {k}'
            if st == 'canary':
                if cur is None:
                    undecided.append({'unit': u, 'reason': f'canary {k} disappeared'})
                elif cur['status'] == 'verified':
                    undecided.append({'unit': u, 'reason': f'VACUOUS CONTRACT: canary {k} verified '
                                      '(a precondition is contradictory)'})
                continue
            if cur is None:
                obligations.append({'id': oid, 'engine': 'verus', 'status': 'undecided',
                                    'detail': 'function no longer in the woven unit'})
                undecided.append({'unit': u, 'reason': f'obligation {k} disappeared'})
                continue
            if st == 'failed-at-baseline':
                # only acceptable when listed as a known finding
                detail = '; '.join(f'{x["kind"]}: {x["clause"]}' for x in cur['failed'])
                kf = known_match(known, prop, u, k, detail) if cur['status'] == 'failed' else None
                if cur['status'] == 'failed' and kf:
                    lines.append(f'KNOWN-FINDING: property={prop} {kf["what"]}')
                    obligations.append({'id': oid, 'engine': 'verus', 'status': 'known-finding', 'detail': detail})
                elif cur['status'] == 'failed':
                    violations.append({'unit': u, 'function': k, 'detail': detail, 'engine': 'verus'})
                    obligations.append({'id': oid, 'engine': 'verus', 'status': 'failed', 'detail': detail})
                else:
                    obligations.append({'id': oid, 'engine': 'verus', 'status': 'discharged', 'detail': ''})
                continue
            if cur['status'] == 'verified':
                obligations.append({'id': oid, 'engine': 'verus', 'status': 'discharged',
                                    'smt_ms': cur.get('smt_ms')})
            elif cur['status'] == 'unstable':
                obligations.append({'id': oid, 'engine': 'verus', 'status': 'undecided', 'detail': 'unstable proof'})
                undecided.append({'unit': u, 'reason': f'{k}: solver-unstable (fails only for some seeds)'})
            else:
                detail = '; '.join(f'{x["kind"]}: {x["clause"]}' for x in cur['failed'])
                kf = known_match(known, prop, u, k, detail)
                if kf:
                    lines.append(f'KNOWN-FINDING: property={prop} {kf["what"]}')
                    obligations.append({'id': oid, 'engine': 'verus', 'status': 'known-finding', 'detail': detail})
                else:
                    violations.append({'unit': u, 'function': k, 'detail': detail, 'engine': 'verus'})
                    obligations.append({'id': oid, 'engine': 'verus', 'status': 'failed', 'detail': detail})
        # functions that fail but are not in the baseline: not an alarm
        for k, v in r['functions'].items():
            if k not in base['functions'] and v['status'] == 'failed':
                undecided.append({'unit': u, 'reason': f'{k} fails but is not in the baseline (new overlay clause?)'})
        # assumption allow-list
        allow = base.get('assumptions')
        if allow is not None:
            cur_as = sorted({f'{a["kind"]} @ {a["at"]}' for a in r['assumptions']})
            new = [a for a in cur_as if a not in allow]
            if new:
                undecided.append({'unit': u, 'reason': 'new unchecked assumption(s) in the woven file: ' + ', '.join(new)})

    # ------------------------------------------------------------------ decide: kani
    kani_failed = {}
    for c, (meta, hs, res) in kani_results.items():
        info = kani_infos[c]
        for h in hs:
            r = res.get(h['name'], {'status': 'undecided', 'reason': 'not run'})
            oid = f'kani:{c}::{h["name"]}'
            entry = {'id': oid, 'engine': 'kani/cbmc', 'class': h.get('class', 'bounded'), 'bound': h.get('bound'),
                     'status': {'success': 'discharged', 'failed': 'failed'}.get(r['status'], 'undecided'),
                     'time_s': r.get('time_s'), 'checks': r.get('checks'), 'covers': h.get('covers', []),
                     'detail': r.get('reason') or '; '.join(x['desc'] for x in r.get('failed_checks', []))}
            if r['status'] == 'failed':
                detail = '; '.join(f'{x["desc"]} @ {x.get("func", "")}' for x in r['failed_checks'])
                kf = known_match(known, prop, 'kani:' + c, h['name'], detail)
                if kf:
                    lines.append(f'KNOWN-FINDING: property={prop} {kf["what"]}')
                    entry['status'] = 'known-finding'
                else:
                    kani_failed[(c, h['name'])] = (h, r)
            elif r['status'] != 'success':
                undecided.append({'unit': f'kani:{c}', 'reason': f'{h["name"]}: {r.get("reason", "no result")}',
                                  'soft': h.get('class') != 'complete'})
            (obligations if h.get('class') == 'complete' else bounded).append(entry)
        if info.get('build_error'):
            undecided.append({'unit': f'kani:{c}', 'reason': 'harness crate does not build: ' + info['build_error'][:600]})

    # ------------------------------------------------------------------ violations -> replay files
    used = set()
    for v in violations:
        u, fn = v['unit'], v['function']
        vr = verus_results[u]
        fails = [f for f in vr['failures'] if f['function'] == fn]
        # look for a failing Kani harness that covers the same function
        cex = None
        short = fn.split(' :: ')[-1]
        for (c, hn), (h, r) in kani_failed.items():
            cov = h.get('covers', [])
            if any(x == fn or x == short or x in fn for x in cov):
                cex = (c, hn, r)
                break
        payload = {'property': prop, 'kind': 'verus-obligation', 'unit': u, 'obligation': f'{u} :: {fn}',
                   'failed_clauses': v['detail'], 'verus_failures': fails, 'verus_cmd': vr.get('cmd'),
                   'extracted_from': next((e for e in vr['extracted'] if e['id'] == fn), None)}
        if cex:
            c, hn, r = cex
            used.add((c, hn))
            payload.update(kani_counterexample(prop, c, hn, r))
            payload['kind'] = 'verus-obligation+kani-counterexample'
            p = write_replay(prop, f'{u}-{short}', payload)
            ok = payload.get('native_replay', {}).get('reproduced') or payload.get('deferred')
            lines.append(f'VIOLATION property={prop} replay={p}' + ('' if ok else ' no-failing-input-found'))
        else:
            payload['harnesses_tried'] = [f'{c}::{h["name"]}' for c, (m, hs, res) in kani_results.items() for h in hs]
            p = write_replay(prop, f'{u}-{short}', payload)
            lines.append(f'VIOLATION property={prop} replay={p} no-failing-input-found')
    for (c, hn), (h, r) in kani_failed.items():
        if (c, hn) in used:
            continue
        payload = kani_counterexample(prop, c, hn, r)
        payload['obligation'] = f'kani:{c}::{hn}'
        payload['class'] = h.get('class')
        payload['bound'] = h.get('bound')
        p = write_replay(prop, f'kani-{c}-{hn}', payload)
        ok = payload.get('native_replay', {}).get('reproduced') or payload.get('deferred')
        lines.append(f'VIOLATION property={prop} replay={p}' + ('' if ok else ' no-failing-input-found'))
        violations.append({'unit': f'kani:{c}', 'function': hn, 'engine': 'kani',
                           'detail': '; '.join(x['desc'] for x in r['failed_checks'])})

    # ------------------------------------------------------------------ evidence
    wall = round(time.time() - t0, 1)
    hard_undecided = [x for x in undecided if not x.get('soft')]
    n_obl = sum(1 for o in obligations if o['status'] != 'known-finding')
    n_dis = sum(1 for o in obligations if o['status'] == 'discharged')
    rnd = random.Random(seed)
    real_fns = set()
    for u, r in verus_results.items():
        for e in r.get('extracted', []):
            if e['kind'] == 'fn':
                real_fns.add(f'{u} :: {e["id"]}')
    sample_src = [o for o in obligations if o['status'] == 'discharged' and (o['id'] in real_fns or o['engine'] != 'verus')] \
        or [o for o in obligations if o['status'] == 'discharged']
    samples = rnd.sample(sample_src, min(6, len(sample_src)))
    functions_under_contract = []
    rewrites = []
    assumptions_scan = []
    for u, r in verus_results.items():
        for e in r.get('extracted', []):
            functions_under_contract.append({'unit': u, 'file': e['file'], 'item': e['id'], 'lines': e['src_lines'],
                                             'sha256_of_item_tokens': e['sha256'][:16], 'kind': e['kind'],
                                             'status': r['functions'].get(e['id'], {}).get('status')
                                             if r['status'] == 'ok' else 'undecided'})
            for rw in e.get('rewrites', []):
                rewrites.append({'unit': u, 'function': e['id'], **{k: v for k, v in rw.items() if k != 'where'}})
            if e.get('dropped_tail'):
                rewrites.append({'unit': u, 'function': e['id'], 'rule': 'R11', 'not_under_contract': e['dropped_tail']})
        assumptions_scan += [{'unit': u, **a} for a in r.get('assumptions', [])]
    not_under_contract = {}
    try:
        sys.path.insert(0, os.path.join(ROOT, 'weave'))
        import rtok as _rtok
        files = {}
        for f in functions_under_contract:
            files.setdefault(f['file'], set()).add((f['item'].rsplit(' :: ', 1)[-1], f['lines'][0]))
        for rel, have in files.items():
            sf = _rtok.SourceFile(rel, open(os.path.join('/repo', rel)).read())
            names = []
            for it in sf.all_items():
                if it.kind != 'fn':
                    continue
                par = it.parent
                if par is not None and par.kind == 'mod' and par.name in ('test', 'tests'):
                    continue
                line = sf.toks[it.lo].line
                if any(hl == line for (_, hl) in have):
                    continue
                cont = par.header_norm(drop_where=True) if par is not None and par.kind in ('impl', 'trait') else '-'
                names.append(f'{cont} :: {it.name}' if cont != '-' else it.name)
            not_under_contract[rel] = names
    except Exception as e:   # evidence only; never decides anything
        not_under_contract = {'error': str(e)}
    level = cfg['level']
    cov = {
        'obligations': n_obl,
        'discharged': n_dis,
        'checker_cmd': ' ; '.join([r.get('cmd', '') for r in verus_results.values() if r.get('cmd')] +
                                  [i.get('cmd', '') for i in kani_infos.values() if i.get('cmd')])[:4000] or 'n/a',
        'trusted_base': TRUSTED_BASE + cfg.get('trusted', []),
        'obligation_unit': 'one obligation = one function of the woven unit (all of its ensures/invariant/'
                           'overflow/bounds/precondition VCs) or one COMPLETE (loop-free, full-domain) Kani harness; '
                           'bounded Kani harnesses are listed under bounded_checks and never counted',
        'by_engine': {
            'verus/z3': {'obligations': sum(1 for o in obligations if o['engine'] == 'verus'),
                         'discharged': sum(1 for o in obligations if o['engine'] == 'verus' and o['status'] == 'discharged'),
                         'solver_ms': sum((r.get('smt_ms') or 0) for r in verus_results.values())},
            'kani/cbmc (complete)': {'obligations': sum(1 for o in obligations if o['engine'] != 'verus'),
                                     'discharged': sum(1 for o in obligations if o['engine'] != 'verus' and o['status'] == 'discharged'),
                                     'solver_s': round(sum((o.get('time_s') or 0) for o in obligations if o['engine'] != 'verus'), 2)},
        },
        'known_findings': [o for o in obligations + bounded if o['status'] == 'known-finding'],
        'failed': [o for o in obligations + bounded if o['status'] == 'failed'],
        'undecided': undecided,
        'bounded_checks': bounded,
        'bounded_passed': sum(1 for b in bounded if b['status'] == 'discharged'),
        'functions_under_contract': functions_under_contract,
        'functions_of_anchored_files_not_under_contract': not_under_contract,
        'rewrites_applied': rewrites,
        'anchor_lost': [{'unit': u, **a} for u, r in verus_results.items() for a in r.get('anchor_lost', [])],
        'assumption_scan': assumptions_scan,
        'canaries': [{'unit': u, 'canary': k, 'failed_as_required': r['functions'].get(k, {}).get('status') == 'failed'}
                     for u, r in verus_results.items() if r['status'] == 'ok'
                     for k in r['functions'] if k.split(' :: ')[-1].startswith('canary_')],
        'unit_wall_s': {**{u: r.get('wall_s') for u, r in verus_results.items()},
                        **{f'kani:{c}': i.get('wall_s') for c, i in kani_infos.items()}},
        'samples': [{'obligation': s['id'], 'engine': s['engine'], 'solver_ms': s.get('smt_ms'),
                     'solver_s': s.get('time_s'), 'contract': contract_text(verus_results, s['id']),
                     'bound': s.get('bound')} for s in samples] or
                   [{'obligation': b['id'], 'engine': b['engine'], 'bound': b.get('bound')} for b in bounded[:4]],
        'explanation': cfg.get('explanation', ''),
        'evaluations': max(1, len(obligations) + len(bounded)),
        'distinct_nontrivial': max(2, n_dis + sum(1 for b in bounded if b['status'] == 'discharged')),
        'rule': 'each obligation / harness is distinct by construction (one per function or per harness shape)',
        'exhaustive': False,
    }
    if level == 'proof' and (n_obl == 0 or n_dis != n_obl):
        # a proof-level evidence file must have obligations == discharged; otherwise fall back to "other"
        level_out = 'other'
        cov['explanation'] = (cov['explanation'] + ' | this run did not discharge every proof obligation '
                              f'({n_dis}/{n_obl}); reported at level "other".').strip(' |')
    else:
        level_out = level
    ev = {'property_id': prop, 'tier': tier, 'seed': seed, 'level': level_out, 'coverage': cov,
          'assumptions': TRUSTED_BASE + cfg.get('assumptions', []), 'wall_s': wall,
          'violations': len(violations)}
    os.makedirs(EVID, exist_ok=True)
    if rebaseline or only_units:
        # partial / maintenance runs never overwrite the evidence file of the registered check
        os.makedirs(os.path.join(ROOT, 'build'), exist_ok=True)
        json.dump(ev, open(os.path.join(ROOT, 'build', f'evidence-partial-{prop}.json'), 'w'), indent=1)
    else:
        json.dump(ev, open(os.path.join(EVID, f'{prop}.json'), 'w'), indent=1)

    # ------------------------------------------------------------------ report
    for ln in lines:
        print(ln)
    print(f'[{prop}] tier={tier} proof obligations {n_dis}/{n_obl} discharged; bounded checks '
          f'{cov["bounded_passed"]}/{len(bounded)} passed; violations={len(violations)}; '
          f'undecided={len(undecided)}; {wall}s')
    for x in undecided:
        print(f'  undecided: {x["unit"]}: {x["reason"]}')
    if violations:
        return 1
    if hard_undecided:
        print(f'UNDECIDED property={prop} reason={hard_undecided[0]["reason"][:200]}')
        return 2
    return 0


def main():
    ap = argparse.ArgumentParser()
    ap.add_argument('prop')
    ap.add_argument('--tier', default=os.environ.get('VERIF_TIER', 'quick'), choices=['quick', 'thorough'])
    ap.add_argument('--replay')
    ap.add_argument('--rebaseline', action='store_true')
    ap.add_argument('--unit', action='append')
    a = ap.parse_args()
    if a.replay:
        sys.exit(do_replay(a.replay))
    seed = int(os.environ.get('VERIF_SEED', '0') or 0)
    if a.prop not in PROPS:
        print(f'unknown property {a.prop}')
        sys.exit(2)
    sys.exit(run_property(a.prop, a.tier, seed, rebaseline=a.rebaseline, only_units=a.unit))


if __name__ == '__main__':
    main()
