"""Run one Verus unit: weave -> verus -> classify per function.  DESIGN §2.2"""
import json
import os
import re
import subprocess
import sys
import time

HERE = os.path.dirname(os.path.abspath(__file__))
ROOT = os.path.dirname(HERE)
sys.path.insert(0, os.path.join(ROOT, 'weave'))
import weave  # noqa: E402

BUILD = os.path.join(ROOT, 'build')

ASSUME_PATTERNS = [
    (r'\bassume\s*\(', 'assume'),
    (r'\badmit\s*\(', 'admit'),
    (r'#\[verifier::external_body\]', 'external_body'),
    (r'\bassume_specification\b', 'assume_specification'),
    (r'#\[verifier::external\w*\]', 'external'),
    (r'#\[verifier::external_type_specification\]', 'external_type_specification'),
    (r'exec_allows_no_decreases_clause', 'exec_allows_no_decreases_clause'),
    (r'\buninterp\s+spec\s+fn\b', 'uninterp spec fn'),
    (r'\baxiom\s+fn\b', 'axiom'),
    (r'#\[verifier::loop_isolation\(false\)\]', 'loop_isolation(false)'),
]

FN_RE = re.compile(r'^\s*(?:#\[[^\]]*\]\s*)*(?:pub(?:\([a-z]+\))?\s+)?(?:(?:open|closed|uninterp|broadcast|unsafe|const|async|exec|axiom)\s+)*'
                   r'(?:(spec|proof)\s+)?(?:unsafe\s+)?fn\s+(\w+)')
CONT_RE = re.compile(r'^\s*(?:pub\s+)?(?:unsafe\s+)?(impl\b[^{]*|trait\s+\w+[^{]*)\{?\s*$')


def scan_functions(text):
    """line-based map of the woven file: [(start_line, container, name, mode)] sorted by line"""
    res = []
    container = '-'
    depth_at_container = None
    for n, ln in enumerate(text.split('\n'), 1):
        if ln.startswith('impl') or ln.startswith('pub trait') or ln.startswith('trait') or ln.startswith('unsafe impl'):
            h = ln.split('{')[0].strip()
            container = ' '.join(h.split())
        elif ln.startswith('}'):
            container = '-'
        m = FN_RE.match(ln)
        if m and not ln.lstrip().startswith('//'):
            mode = m.group(1) or 'exec'
            res.append((n, container if ln.startswith((' ', '\t')) else '-', m.group(2), mode))
    return res


def fn_at(fnmap, line):
    best = None
    for ent in fnmap:
        if ent[0] <= line:
            best = ent
        else:
            break
    return best


def fid(ent):
    return f'{ent[1]} :: {ent[2]}' if ent[1] != '-' else ent[2]


def norm_clause(s):
    return ' '.join(s.split())


EXIT_LABELS = ('at the end of the function body', 'at this exit')


def run_unit(unit, repo='/repo', rlimit=20, extra_opts=(), timeout=600):
    """returns dict: status in {'ok','undecided'}, functions{id: {...}}, failures[...], etc."""
    os.makedirs(BUILD, exist_ok=True)
    unit_dir = os.path.join(ROOT, 'units', unit)
    woven = os.path.join(BUILD, f'{unit.replace("-", "_")}_woven.rs')
    t0 = time.time()
    w = weave.Weaver(repo)
    res = {'unit': unit, 'engine': 'verus', 'status': 'ok', 'reason': None, 'functions': {}, 'failures': [],
           'assumptions': [], 'rewrites': [], 'extracted': [], 'woven': woven}
    try:
        text = w.weave(os.path.join(unit_dir, 'overlay.vrs'))
    except weave.AnchorLost as e:
        res.update(status='undecided', reason=f'ANCHOR-LOST {e}')
        return res
    except (weave.Unsupported, weave.rtok.TokError, AssertionError, IndexError) as e:
        res.update(status='undecided', reason=f'UNSUPPORTED {type(e).__name__} {e}')
        return res
    bad = weave.self_check(text, w.functions)
    if bad:
        res.update(status='undecided', reason='weaver self-check failed: ' + ', '.join(bad))
        return res
    open(woven, 'w').write(text)
    res['extracted'] = [{k: f[k] for k in ('id', 'file', 'container', 'name', 'src_lines', 'sha256', 'kind',
                                            'rewrites', 'dropped_tail', 'woven_lines')} for f in w.functions]
    res['structs'] = w.structs
    res['rewrites'] = w.rewrites
    res['anchor_lost'] = list(getattr(w, 'anchor_lost', []))
    # assumption scan
    lines = text.split('\n')
    fnmap = scan_functions(text)
    for n, ln in enumerate(lines, 1):
        code = ln.split('//')[0]
        for pat, name in ASSUME_PATTERNS:
            if re.search(pat, code):
                # the function this attribute is attached to is the next fn line
                nxt = next((e for e in fnmap if e[0] >= n), None)
                res['assumptions'].append({'kind': name, 'line': n, 'at': fid(nxt) if nxt else '?',
                                           'text': ln.strip()[:160]})
    cmd = ['verus', '--edition', '2024', woven, '--output-json', '--time', '--error-format=json',
           '--multiple-errors', '8', '--rlimit', str(rlimit)] + list(extra_opts)
    res['cmd'] = ' '.join(cmd)
    try:
        p = subprocess.run(cmd, capture_output=True, text=True, timeout=timeout, cwd=BUILD)
    except subprocess.TimeoutExpired:
        res.update(status='undecided', reason='verus timeout')
        return res
    res['wall_s'] = round(time.time() - t0, 2)
    try:
        out = json.loads(p.stdout)
    except Exception:
        res.update(status='undecided', reason='verus produced no json: ' + (p.stderr[-800:] if p.stderr else ''))
        return res
    vr = out.get('verification-results', {})
    diags = []
    for ln in p.stderr.split('\n'):
        ln = ln.strip()
        if ln.startswith('{'):
            try:
                diags.append(json.loads(ln))
            except Exception:
                pass
    if vr.get('encountered-vir-error') or 'verified' not in vr:
        msgs = [d.get('message', '') for d in diags if d.get('level') == 'error']
        res.update(status='undecided', reason='verus front-end error (unsupported construct / type error): ' +
                   ' | '.join(msgs[:4]))
        res['diagnostics'] = [d.get('rendered', '')[:1500] for d in diags if d.get('level') == 'error'][:6]
        return res
    # times
    times = {}
    try:
        for m in out['times-ms']['smt']['smt-run-module-times']:
            for fb in m.get('function-breakdown', []):
                times.setdefault(fb['function'].split('::', 1)[1], []).append(
                    {'ms': fb['time-micros'] / 1000.0, 'rlimit': fb['rlimit'], 'success': fb['success'],
                     'mode': fb.get('mode:')})
    except Exception:
        pass
    res['times_ms'] = {k: out['times-ms'].get(k) for k in ('total',)}
    res['smt_ms'] = out.get('times-ms', {}).get('smt', {}).get('total')
    # per function table
    nobody = []   # woven line ranges of signature-only / trusted (external_body) emissions: no obligation of their own
    for f in w.functions:
        if f['kind'] != 'fn':
            nobody.append(tuple(f['woven_lines']))
    for ent in fnmap:
        i = fid(ent)
        if ent[3] == 'spec':
            continue
        if any(lo <= ent[0] <= hi for lo, hi in nobody):
            res.setdefault('contract_only', []).append(i)
            continue
        res['functions'][i] = {'mode': ent[3], 'line': ent[0], 'status': 'verified', 'failed': []}
    for a in res['assumptions']:
        if a['kind'] == 'external_body' and a['at'] in res['functions']:
            del res['functions'][a['at']]
            res.setdefault('contract_only', []).append(a['at'])
    hard = []
    rustc_errors = [d for d in diags if d.get('level') == 'error' and d.get('code')]
    if rustc_errors or (vr.get('verified', 0) + vr.get('errors', 0) == 0 and any(d.get('level') == 'error' for d in diags)):
        msgs = [d.get('message', '') for d in diags if d.get('level') == 'error' and 'aborting' not in d.get('message', '')]
        res.update(status='undecided', reason='the woven unit no longer compiles (contract overlay vs. changed source: '
                   'type/resolution error, not a verification result): ' + ' | '.join(msgs[:3]))
        res['diagnostics'] = [d.get('rendered', '')[:1500] for d in diags if d.get('level') == 'error'][:6]
        return res
    for d in diags:
        if d.get('level') != 'error' or not d.get('spans'):
            if d.get('level') == 'error' and 'aborting' not in d.get('message', ''):
                hard.append(d.get('message'))
            continue
        spans = d['spans']
        exit_span = next((s for s in spans if (s.get('label') or '') in EXIT_LABELS), None)
        prim = next((s for s in spans if s.get('is_primary')), spans[0])
        loc = exit_span or prim
        msg = d['message']
        if msg.startswith('precondition not satisfied') or msg.startswith('recommendation not met'):
            loc = prim
        ent = fn_at(fnmap, loc['line_start'])
        clause_span = prim
        if msg.startswith('precondition not satisfied'):
            clause_span = next((s for s in spans if 'failed precondition' in (s.get('label') or '')), prim)
        clause = ' '.join(t['text'][t['highlight_start'] - 1:t['highlight_end'] - 1] for t in clause_span.get('text', []))
        if msg.startswith('possible arithmetic') or msg.startswith('assertion fail') or 'index' in msg:
            pass
        f = {'function': fid(ent) if ent else '?', 'kind': msg, 'clause': norm_clause(clause),
             'woven_line': prim['line_start'], 'site_line': loc['line_start'],
             'site_text': norm_clause(' '.join(t['text'] for t in loc.get('text', [])))[:200],
             'rendered': d.get('rendered', '')[:3000]}
        res['failures'].append(f)
        if ent and fid(ent) in res['functions']:
            res['functions'][fid(ent)]['status'] = 'failed'
            res['functions'][fid(ent)]['failed'].append({'kind': msg, 'clause': f['clause']})
    nfailed = sum(1 for v in res['functions'].values() if v['status'] == 'failed')
    res['verus_counts'] = {'verified': vr.get('verified'), 'errors': vr.get('errors')}
    if any('rlimit' in (f['kind'] or '') or 'Resource limit' in (f['kind'] or '') for f in res['failures']):
        res['rlimit_hit'] = True
    if hard and not res['failures']:
        res.update(status='undecided', reason='verus/rustc error: ' + ' | '.join(str(h) for h in hard[:3]))
    elif (vr.get('verified', 0) + vr.get('errors', 0)) == 0:
        res.update(status='undecided', reason='vacuous: verus generated no obligations')
    elif nfailed != vr.get('errors'):
        res.update(status='undecided', reason=f'could not attribute every verus error to a function '
                   f'({nfailed} attributed, verus says {vr.get("errors")}); messages: {hard[:3]}')
    # attach times
    for i, v in res['functions'].items():
        key = None
        cont, _, nm = i.rpartition(' :: ')
        m = re.search(r'for\s+(\w+)', cont) or re.search(r'(?:impl(?:<[^>]*>)?|trait)\s+(\w+)', cont)
        if m:
            key = f'{m.group(1)}::{nm}'
        else:
            key = nm
        if key in times:
            v['smt_ms'] = round(sum(x['ms'] for x in times[key]) / len(times[key]), 2)
    return res
