"""Which units decide which property (DESIGN §0, §4)."""

TRUSTED_BASE = ['A1 Verus 0.2026.09.13 + Z3, rustc 1.98.1; Kani 0.68 / CBMC 6.11; the weaver (self-check re-tokenises every spliced body)',
 'A2 vstd specifications of Vec, slices, Option, ranges, min/unwrap_or',
 'A7 machine arithmetic is NOT treated as mathematical (usize = u64 on x86-64; overflow obligations generated and discharged)',
 'A10 configuration: the pinned build (io-uring driver; no allocator_api / read_buf features)']

PROPS = {'C10': {'level': 'proof',
         'verus': ['c10-view'],
         'kani': ['c10', 'driver'],
         'explanation': 'Verus proves the trait-level view contract (as_init/as_uninit position and length, set_len/advance frames, flatten, '
                        'reserve/reserve_exact/extend_from_slice keep the view and its bytes) on the real bodies of Slice/Uninit/Box/AncillaryBuf, '
                        'the extension traits, BufferRef arithmetic and the std::io adapters Reader/Writer of compio-buf/src/io.rs, for all nestings '
                        'by induction over trait impls; Kani checks the same contract pointer-level on the real root types (bounded), the '
                        'iterator-based vectored code (bounded), and discharges the hand-off contract of IoBufExt::slice completely.',
         'trusted': ['A3 root buffers (Vec<u8>, [u8], [u8;N], BytesMut, ArrayVec, SmallVec, Box<B>) satisfy the view contract: assumed in the Verus '
                     'units (they are std/third-party containers behind unsafe from_raw_parts), exercised bounded by the Kani compose harnesses',
                     'hand-offs H5 (copy_within), H6 (as_mut_slice), H9 (ensure_init) and the raw copy of extend_from_slice (A4): ASSUMED contracts '
                     'over unsafe/std code',
                     'std io::Read for &[u8] (vshim_io_read_tmp), io::Error::other (payload dropped)'],
         'assumptions': []},
 'C13': {'level': 'proof',
         'verus': ['c13-frame', 'c13-step'],
         'kani': ['io'],
         'explanation': 'Verus proves, for every buffer and every header value, that Frame arithmetic and the extract/enclose functions of '
                        'LengthDelimited, AnyDelimited, CharDelimited (extract) and NoopFramer never overflow, never index out of bounds, never '
                        'report a frame that does not fit, with the extract decision pinned in both directions and enclose->extract round trips as '
                        'lemmas; the whole Idle arm (state always put back: F17), make-room, refill, end-of-stream steps of the Framed read state '
                        'machine, the data step and the write future of its write side by statement-range extraction, one turn of the read loop as a '
                        'composition lemma; BytesCodec::decode against the abstract Decoder contract; AncillaryBuilder::{new, push} (the cursor '
                        'invariant, advance never beyond capacity, refused push records nothing) over ASSUMED raw-pointer contracts of '
                        'CMsgIter/CMsgMut. Kani checks WHICH length is decoded (all 8 header bytes symbolic), the byte-conversion facts (complete), '
                        'delimiter scanning and the cmsg builder/iterator round trip on the real code (bounded, listed separately).',
         'trusted': ['A4 vshim: io::Error construction keeps only the kind (R7); u64::from_{be,le}_bytes are uninterpreted in Verus (R10), their '
                     'meaning is checked by kani io lenfield::extract_hostile_header',
                     'contracts of compio-buf views (common/buf.vrs) are assumed here and discharged by check C10',
                     'H7 slice windows().position() = first occurrence (ASSUMED; bounded Kani delim::*); char::encode_utf8 yields 1..=4 bytes',
                     'CMsgIter::{new,current_mut,next}, CMsgMut::{set_level,set_ty,encode_data}, CMSG_SPACE (libc macros over raw pointers): ASSUMED '
                     'contracts; bounded Kani cmsg::*',
                     'abstract Encoder/Decoder contracts as documented in codec/mod.rs; AsyncReadExt::append contract proved in c11-loops (C11)'],
         'assumptions': []},
 'C11': {'level': 'proof',
         'verus': ['c11-loops', 'c11-buffer', 'c11-mem', 'c11-bufio'],
         'kani': ['io'],
         'explanation': 'Verus proves, on the synchronous projection of the real helper bodies (macros expanded), that read_exact(_at), '
                        'read_to_end(_at), append, write_all(_at), copy(_with_size), read_vectored_exact(_at), write_vectored_all(_at), Take, '
                        'Buffer, BufReader (with_capacity, fill_buf, consume, read) and BufWriter (write, flush, flush_if_needed, shutdown) transfer '
                        'exactly the reference bytes for EVERY schedule of short transfers / Interrupted / errors / EOF allowed by the abstract '
                        'reader/writer contracts, preserve every other byte, and never let Interrupted escape; the in-memory implementors (&[u8], '
                        'Cursor, [u8]::read_at/write_at, Vec<u8>::{write, write_at, read_at}) and BufReader::read are proved to OBEY the abstract '
                        'contracts. The real async code and the iterator-based vectored implementations are checked by bounded Kani harnesses '
                        '(listed separately).',
         'trusted': ['A6 synchronous projection (R5): no cancellation of a helper future between two statements; abstract readers/writers obey the '
                     'stream contract of common/stream.vrs (that IS the quantifier of C11; OS-backed implementors are not proved to obey it)',
                     'A8 termination is not proved for the Interrupted-retry loops (exec_allows_no_decreases_clause)',
                     'A3 Vec<u8> is a well-formed root (common/vecroot.vrs: axiom_vec_ok, vshim_vec_capacity/reserve)',
                     'contracts of compio-buf views (common/buf.vrs) are assumed here and discharged by check C10',
                     'H8 abstract vectored buffers: total_len/total_capacity/slice/slice_mut/VectoredSlice (iterator-based bodies) are ASSUMED '
                     'contracts; bounded Kani c10 vectored::*',
                     'A4 raw copies (slice_to_uninit / copy_nonoverlapping): ASSUMED'],
         'assumptions': []},
 'C06': {'level': 'model_checking',
         'kani': ['driver'],
         'explanation': 'Bounded Kani check (never counted as proved) of the SharedFd protocol on the real compio-driver crate (unsync build): the '
                        'descriptor is a token whose Drop counts; for <= 3 other holders and every release order: closed exactly once, never while '
                        'another holder exists, take() completes at the first poll after the last release and not before, the registered waker fires '
                        'at the last release, a second concurrent close is refused without stranding the first, a cancelled close neither closes '
                        'early nor leaks.',
         'trusted': ['A9 bounds as printed per harness; single thread (the `sync` feature / cross-thread releases are NOT covered); '
                     'descriptor-producing operations (accept/open/socket/pipe) and cancel-vs-completion races are NOT covered (kernel side)'],
         'assumptions': ['partial: only the in-process reference-count/waker protocol of SharedFd is under contract']},
 'C09': {'level': 'proof',
         'verus': ['c09-timer'],
         'explanation': 'PARTIAL proof: Verus proves, on the real bodies of TimerRuntime::{new, is_completed, insert, cancel, poll_timer, '
                        'update_waker, min_timeout} and of wake() up to (excluding) its final waker loop, that a key leaves the wheel only through '
                        'wake with deadline <= now (never early), that wake removes every key with deadline <= now (always fires), that insert arms '
                        'a fresh key or refuses a passed deadline, that cancel removes exactly its key, that a timer future is Ready exactly when '
                        'its key has left the wheel and a Pending one has registered a waker of the polling task, that min_timeout is the distance '
                        'to the nearest deadline (idle sleep bound); Interval::tick keeps ticks aligned to start + k*period; Sleep::poll / '
                        'Timeout::poll steps (ready at once for a passed deadline; inner result exactly when the inner future is ready at the poll). '
                        'Not covered: the waker loop of wake, Runtime::poll_with/current_timeout, cancellation inside tick. No bounded stand-in '
                        'exists (Kani cannot execute BTreeMap).',
         'trusted': ['A11 assumed std facts: BTreeMap::{split_off, get_mut, first_key_value} (shims with stated specs), mem::replace, the derived '
                     'Ord of TimerKey is lawful and lexicographic on (deadline, generation) (axiom_timerkey_ord, key_lt), Instant order and '
                     'arithmetic over an uninterpreted ns(), Instant::now() returns some instant, Waker::will_wake(true)/clone wake the same task; '
                     'abstract pollables (VPoll) for the pinned inner future / timer future'],
         'assumptions': ['partial: see explanation; the tail of wake() (R11) is not under contract']},
 'C12': {'level': 'proof',
         'verus': ['c11-buffer', 'c12-sync'],
         'kani': ['io'],
         'explanation': 'PARTIAL. Proved (Verus, real bodies): the Buffer behind both adapters (take/restore, advance, reset, with, with_sync, '
                        'flush_to with error safety, compact_to), and of the blocking-style adapter SyncReadBuf::{new, available_read, fill_buf, '
                        'consume, read, read_buf_uninit, fill_read_buf, into_inner, is_eof} and SyncWriteBuf::{write, flush_write_buf, '
                        'has_pending_write} as whole functions (closures over &mut by instantiating Buffer::with/with_sync at the closure; closure '
                        'bodies as statement ranges), plus the FIFO pipe invariants of both directions as composition lemmas. Of the poll-style '
                        'adapter: replace_waker, the registration step of every poll entry point, and poll_write / poll_flush / poll_close / '
                        'poll_read / poll_read_uninit as whole bodies over abstract interfaces of the two halves (Pending => own slot registered; '
                        'shutdown only with no flush in flight and nothing queued; flush answers Ok only when flushed; WouldBlock never surfaces). '
                        'Bounded (Kani, real SyncStream through its public API): limit honoured, short writes. NOT covered: read_buf, the thin '
                        'SyncStream<S> wrapper, poll_future! (boxed in-flight futures), the loop of poll_fill_buf, WakerArrayRef (raw waker table).',
         'trusted': ['A6 synchronous projection; abstract inner stream obeys the stream contract',
                     'A3 Vec<u8> root axioms incl. growable() (allocator does not fail); compio-buf view contracts proved under C10',
                     'std io::Read for &[u8] (vshim_slice_io_read), Option::replace, Waker::will_wake/clone (assume_specification)',
                     'abstract interfaces WriteHalfOps / ReadHalfOps of the poll-style adapter: their operation contracts (poll_flush_impl, '
                     'poll_close_impl, poll_read_impl, sync_write/sync_read, slot bookkeeping) are ASSUMED; ready!/`?` on Poll<Result> written out '
                     'by definition'],
         'assumptions': ['partial: see explanation']}}
