"""Which units decide which property (DESIGN §0, §4)."""

TRUSTED_BASE = [
    'A1 Verus 0.2026.09.13 + Z3, rustc 1.98.1; Kani 0.68 / CBMC 6.11; the weaver (self-check re-tokenises every spliced body)',
    'A2 vstd specifications of Vec, slices, Option, ranges, min/unwrap_or',
    'A7 machine arithmetic is NOT treated as mathematical (usize = u64 on x86-64; overflow obligations generated and discharged)',
    'A10 configuration: the pinned build (io-uring driver; no allocator_api / read_buf features)',
]

PROPS = {
    'C10': {
        'level': 'proof',
        'verus': ['c10-view'],
        'kani': ['c10', 'driver'],
        'explanation': 'Verus proves the trait-level view contract for Slice/Uninit/ext methods for all nestings by induction '
                       'over trait impls; Kani checks the same contract pointer-level on the real root types (bounded) and '
                       'discharges the hand-off contract of IoBufExt::slice completely.',
        'trusted': ['A3 root buffers (Vec<u8>, [u8], [u8;N], BytesMut, ArrayVec, SmallVec, Box<B>) satisfy the view contract: '
                    'assumed in the Verus units (they are std/third-party containers behind unsafe from_raw_parts), exercised '
                    'bounded by the Kani compose harnesses'],
        'assumptions': [],
    },
    'C13': {
        'level': 'proof',
        'verus': ['c13-frame', 'c13-step'],
        'kani': ['io'],
        'explanation': 'Verus proves, for every buffer and every header value, that Frame arithmetic and LengthDelimited/NoopFramer '
                       '::extract never overflow, never index out of bounds and never report a frame that does not fit the buffered '
                       'bytes; Kani checks WHICH length is decoded (all 8 header bytes symbolic), encode/decode round trips, '
                       'delimiter scanning and the cmsg builder/iterator round trip on the real code (bounded, listed separately).',
        'trusted': ['A4 vshim: io::Error construction keeps only the kind (R7); u64::from_{be,le}_bytes are uninterpreted in '
                    'Verus (R10), their meaning is checked by kani io lenfield::extract_hostile_header',
                    'contracts of compio-buf views (common/buf.vrs) are assumed here and discharged by check C10'],
        'assumptions': [],
    },
    'C11': {
        'level': 'proof',
        'verus': ['c11-loops', 'c11-buffer', 'c11-mem', 'c11-bufio'],
        'kani': ['io'],
        'explanation': 'Verus proves, on the synchronous projection of the real helper bodies (macros expanded), that read_exact(_at), '
                       'read_to_end(_at), append, write_all(_at) transfer exactly the reference bytes for EVERY schedule of short '
                       'transfers / Interrupted / errors / EOF allowed by the abstract reader/writer contract, preserve every '
                       'other byte, and never let Interrupted escape; the real async code and the iterator-based / macro-generated '
                       'in-memory implementations are checked by bounded Kani harnesses (listed separately).',
        'trusted': ['A6 synchronous projection (R5): no cancellation of a helper future between two statements; abstract readers/'
                    'writers obey the stream contract of common/stream.vrs (that IS the quantifier of C11; OS-backed implementors '
                    'are not proved to obey it)',
                    'A8 termination is not proved for the Interrupted-retry loops (exec_allows_no_decreases_clause)',
                    'A3 Vec<u8> is a well-formed root (common/vecroot.vrs: axiom_vec_ok, vshim_vec_capacity/reserve)',
                    'contracts of compio-buf views (common/buf.vrs) are assumed here and discharged by check C10'],
        'assumptions': [],
    },
    'C06': {
        'level': 'model_checking',
        'kani': ['driver'],
        'explanation': 'Bounded Kani check (never counted as proved) of the SharedFd protocol on the real compio-driver crate '
                       '(unsync build): the descriptor is a token whose Drop counts; for <= 3 other holders and every release '
                       'order: closed exactly once, never while another holder exists, take() completes at the first poll '
                       'after the last release and not before, the registered waker fires at the last release, a second '
                       'concurrent close is refused without stranding the first, a cancelled close neither closes early nor leaks.',
        'trusted': ['A9 bounds as printed per harness; single thread (the `sync` feature / cross-thread releases are NOT covered); '
                    'descriptor-producing operations (accept/open/socket/pipe) and cancel-vs-completion races are NOT covered (kernel side)'],
        'assumptions': ['partial: only the in-process reference-count/waker protocol of SharedFd is under contract'],
    },
    'C09': {
        'level': 'proof',
        'verus': ['c09-timer'],
        'explanation': 'PARTIAL proof: Verus proves, on the real bodies of TimerRuntime::{new, is_completed, insert, cancel, poll_timer} '
                       'and of wake() up to (excluding) its final waker loop, that a key leaves the wheel only through wake with '
                       'deadline <= now (never early), that wake removes every key with deadline <= now (always fires), that insert '
                       'arms a fresh key or refuses a passed deadline, that cancel removes exactly its key, and that a timer future is '
                       'Ready exactly when its key has left the wheel. Not covered: the waker loop of wake, update_waker, min_timeout '
                       '(idle sleep bound), Sleep/Timeout/Interval futures. No bounded stand-in exists (Kani cannot execute BTreeMap).',
        'trusted': ['A11 assumed std facts: BTreeMap::split_off returns exactly the entries >= the key (vshim_split_off), mem::replace, '
                    'the derived Ord of TimerKey is lawful and lexicographic on (deadline, generation) (axiom_timerkey_ord, key_lt), '
                    'Instant <= is the order of ns(), Instant::now() returns some instant; update_waker never adds/removes an entry (assumed contract)'],
        'assumptions': ['partial: see explanation; the tail of wake() (R11) and update_waker are not under contract'],
    },
    'C12': {
        'level': 'proof',
        'verus': ['c11-buffer', 'c12-sync'],
        'kani': ['io'],
        'explanation': 'PARTIAL. Proved (Verus, real bodies): the Buffer behind both adapters (take/restore, advance drops exactly k '
                       'pending bytes, reset, with_sync, flush_to with error safety: on Err exactly the unsent rest stays pending), and of '
                       'the blocking-style adapter SyncReadBuf::{available_read, fill_buf, consume, is_eof} (queued bytes come out once, in '
                       'order; empty answer only at EOF; WouldBlock otherwise) and SyncWriteBuf::flush_write_buf (a failed flush keeps '
                       'exactly the unsent bytes; a retry sends them). Bounded (Kani, real SyncStream through its public API): limit '
                       'honoured, short writes. NOT covered: SyncWriteBuf::write and SyncReadBuf::fill_read_buf (closures capturing &mut / '
                       'async closures: outside Verus; too expensive for CBMC beyond the two shapes listed), the poll-style adapter '
                       'AsyncStream (pinned self-referential futures, waker arrays: "every polling task is woken" is a schedule property).',
        'trusted': ['H2 Buffer::compact_to preserves the pending bytes (assumed contract; bounded Kani harness io c11buf::buffer_advance_compact_fifo)',
                    'A6 synchronous projection; abstract inner stream obeys the stream contract',
                    'A3 Vec<u8> root axioms; compio-buf view contracts proved under C10'],
        'assumptions': ['partial: see explanation'],
    },
}
